//! Engines `translatemodel`, `trialextent`: `Translator::translate` with
//! `from = None` as a whole (detection over one handle, then the selected
//! format module on what the handle has become), against the Lean model
//! `Xt.Translate` (lean/XtModel/Model/Translate.lean).
//!
//! `translatemodel <slice|reader:<caps>:<fail>> <hex> [y=<trial> ye=<0|1> t=<trial>]`
//! answers `<detected|none|ioerr> <slice|reader|-> <verdict class> <ndocs>`:
//!
//! * detected format and whether the handle became a slice:
//!   `xt::verif::detect_slice` / `detect_reader_then_drain`;
//! * verdict and number of documents: `xt::translate_slice(None)` /
//!   `xt::translate_reader(None)` into JSON (JSON source: one output line per
//!   document; the error text mapped to serde_json's error code) resp. into
//!   MessagePack (MessagePack source: the output is decoded value by value);
//!   `- -` when YAML or TOML was selected (those runs are parameters of the
//!   model), `fault -` when a source fault was injected;
//! * the `y=` / `ye=` / `t=` tokens (the YAML and TOML trial answers and
//!   whether the YAML trial saw the end of the input) are taken from the real
//!   single-trial hooks and only given when neither the MessagePack nor the
//!   JSON trial decides.
//!
//! `trialextent <msgpack|json> <caps> <hex>` answers `<trial answer> <bytes
//! delivered> <eof 0|1>` for one trial on a fresh reader handle, through a
//! reader that counts what it delivers: how far the concrete trials READ, on
//! matching and on failing inputs.

use std::cell::Cell;
use std::io::Read;

use crate::engines::input::{corpus, detect_scheds, detected_token, yaml_reader_rejects, EofSpy, Sched};
use crate::engines::json::kind_of;
use crate::out::Out;
use crate::util::{catch, hex, FaultWriter, Rng, SchedReader};
use crate::xtapi::Fmt;

/// A reader that counts the bytes it delivers and notes an end-of-input answer.
struct CountSpy<'a> {
	inner: SchedReader,
	delivered: &'a Cell<usize>,
	saw_eof: &'a Cell<bool>,
}

impl Read for CountSpy<'_> {
	fn read(&mut self, buf: &mut [u8]) -> std::io::Result<usize> {
		let n = self.inner.read(buf)?;
		self.delivered.set(self.delivered.get() + n);
		if n == 0 && !buf.is_empty() {
			self.saw_eof.set(true);
		}
		Ok(n)
	}
}

fn trial_token(r: &Result<std::io::Result<bool>, String>) -> String {
	match r {
		Ok(Ok(true)) => "match".to_string(),
		Ok(Ok(false)) => "nomatch".to_string(),
		Ok(Err(_)) => "ioerr".to_string(),
		Err(p) => format!("panic:{}", p.replace(' ', "_")),
	}
}

fn trialextent_case(out: &mut Out, f: Fmt, bytes: &[u8], sched: &Sched) {
	let delivered = Cell::new(0usize);
	let saw_eof = Cell::new(false);
	let r = catch(|| {
		xt::verif::input_matches_reader(
			f.xt(),
			CountSpy { inner: SchedReader::new(bytes, sched.caps.clone(), sched.cycle, None), delivered: &delivered, saw_eof: &saw_eof },
		)
	});
	let tok = trial_token(&r);
	let answer = format!("{tok} {} {}", delivered.get(), if saw_eof.get() { 1 } else { 0 });
	out.count(&format!("trialextent.{}.{}.{}", f.name(), tok.split(':').next().unwrap_or(""), if saw_eof.get() { "eof" } else { "noeof" }));
	out.case("trialextent", &format!("{} {} {}", f.name(), sched.field(), hex(bytes)), &answer, delivered.get() > 0);
}

/// The number of complete MessagePack values at the front of `bytes`.
fn count_msgpack_values(bytes: &[u8]) -> usize {
	let mut de = rmp_serde::Deserializer::new(std::io::Cursor::new(bytes));
	let mut n = 0;
	while (de.position() as usize) < bytes.len() {
		if <serde::de::IgnoredAny as serde::Deserialize>::deserialize(&mut de).is_err() {
			break;
		}
		n += 1;
	}
	n
}

fn count_lines(bytes: &[u8]) -> usize {
	bytes.iter().filter(|&&b| b == b'\n').count()
}

const UNABLE: &str = "unable to detect input format";

/// One `translatemodel` case.
fn translate_case(out: &mut Out, bytes: &[u8], sched: Option<&Sched>, fail_at: Option<usize>, label: &str) {
	if sched.is_some() && yaml_reader_rejects(bytes) {
		// K6's class: libyaml's answer depends on read boundaries (see detectlist).
		out.count("translate.skipped.reader_mode_yaml_reader_rejects_input");
		return;
	}
	// Do the concrete trials decide? (Fresh handles; a MessagePack trial that saw
	// the end of the input turns the handle into a slice for the JSON trial.)
	let mut flipped = false;
	let mut concrete = false;
	for f in [Fmt::Msgpack, Fmt::Json] {
		let tok = match sched {
			Some(s) if !flipped => {
				let cell = Cell::new(false);
				let r = catch(|| xt::verif::input_matches_reader(f.xt(), EofSpy { inner: SchedReader::new(bytes, s.caps.clone(), s.cycle, fail_at), saw_eof: &cell }));
				if cell.get() {
					flipped = true;
				}
				trial_token(&r)
			}
			_ => trial_token(&catch(|| xt::verif::input_matches_slice(f.xt(), bytes))),
		};
		if tok != "nomatch" {
			concrete = true;
			break;
		}
	}
	let mut ext = String::new();
	if !concrete {
		if fail_at.is_some() {
			// What the YAML trial does with a failing source is not part of the model's checked surface.
			out.count("translate.skipped.fault_reaches_yaml_trial");
			return;
		}
		let (y, ye) = match sched {
			Some(s) if !flipped => {
				let cell = Cell::new(false);
				let r = catch(|| xt::verif::input_matches_reader(xt::Format::Yaml, EofSpy { inner: SchedReader::new(bytes, s.caps.clone(), s.cycle, None), saw_eof: &cell }));
				(trial_token(&r), cell.get())
			}
			_ => (trial_token(&catch(|| xt::verif::input_matches_slice(xt::Format::Yaml, bytes))), false),
		};
		// The TOML trial's answer does not depend on the supply mode for inputs
		// below its cap (a reader is buffered whole); above it the reader trial declines.
		let t = match sched {
			Some(s) if !flipped && !ye => trial_token(&catch(|| xt::verif::input_matches_reader(xt::Format::Toml, SchedReader::new(bytes, s.caps.clone(), s.cycle, None)))),
			_ => trial_token(&catch(|| xt::verif::input_matches_slice(xt::Format::Toml, bytes))),
		};
		if y.starts_with("panic") || t.starts_with("panic") {
			out.fail("translate_trial_panicked", "", format!("input {}: YAML / TOML trial panicked ({y} / {t})", hex(bytes)));
			return;
		}
		ext = format!(" y={y} ye={} t={t}", if ye { 1 } else { 0 });
	}

	// The implementation's answer.
	let (detected, became_slice) = match sched {
		None => (detected_token(&catch(|| xt::verif::detect_slice(bytes))), true),
		Some(s) => match catch(|| xt::verif::detect_reader_then_drain(SchedReader::new(bytes, s.caps.clone(), s.cycle, fail_at), 7)) {
			Ok((d, slice, _)) => (detected_token(&Ok(d)), slice),
			Err(p) => (format!("panic:{}", p.replace(' ', "_")), false),
		},
	};
	let mode = if became_slice { "slice" } else { "reader" };
	let target = if detected == "msgpack" { Fmt::Msgpack } else { Fmt::Json };
	let mut w = FaultWriter::new(None, vec![]);
	let r = catch(|| match sched {
		None => xt::translate_slice(bytes, None, target.xt(), &mut w),
		Some(s) => xt::translate_reader(SchedReader::new(bytes, s.caps.clone(), s.cycle, fail_at), None, target.xt(), &mut w),
	});
	let result: Result<(), String> = match r {
		Ok(Ok(())) => Ok(()),
		Ok(Err(e)) => Err(e.to_string()),
		Err(p) => Err(format!("PANIC: {p}")),
	};
	let answer = match detected.as_str() {
		"none" => {
			if result != Err(UNABLE.to_string()) {
				out.fail("translate_none_message", "", format!("input {}: nothing detected but translate(None) gave {result:?}", hex(bytes)));
			}
			"none - unable 0".to_string()
		}
		"ioerr" => {
			if result.is_ok() {
				out.fail("translate_ioerr_propagates", "", format!("input {}: detection failed but translate(None) succeeded", hex(bytes)));
			}
			"ioerr - ioerr 0".to_string()
		}
		"json" if fail_at.is_none() => {
			let v = match &result {
				Ok(()) => "ok".to_string(),
				Err(e) => format!("err:{}", kind_of(e)),
			};
			format!("json {mode} {v} {}", count_lines(&w.accepted))
		}
		"msgpack" if fail_at.is_none() => {
			let v = if result.is_ok() { "ok" } else { "err" };
			format!("msgpack {mode} {v} {}", count_msgpack_values(&w.accepted))
		}
		"json" | "msgpack" => {
			// With an injected source fault a reader run ends in the fault (C12);
			// a handle that became a slice has everything and runs normally.
			if became_slice {
				if detected == "json" {
					let v = match &result {
						Ok(()) => "ok".to_string(),
						Err(e) => format!("err:{}", kind_of(e)),
					};
					format!("json slice {v} {}", count_lines(&w.accepted))
				} else {
					format!("msgpack slice {} {}", if result.is_ok() { "ok" } else { "err" }, count_msgpack_values(&w.accepted))
				}
			} else {
				format!("{detected} {mode} fault -")
			}
		}
		"yaml" | "toml" => format!("{detected} {mode} - -"),
		other => other.to_string(),
	};
	out.count(&format!("translate.answer.{}", answer.split(' ').take(2).collect::<Vec<_>>().join(".")));
	out.count(&format!("translate.corpus.{label}"));
	let mode_field = match sched {
		None => "slice".to_string(),
		Some(s) => format!("reader:{}:{}", s.field(), fail_at.map_or("-".to_string(), |k| k.to_string())),
	};
	let nontrivial = detected == "json" || detected == "msgpack";
	out.case("translatemodel", &format!("{mode_field} {}{ext}", hex(bytes)), &answer, nontrivial);
}

pub fn run(out: &mut Out, rng: &mut Rng, thorough: bool) {
	let items = corpus(rng, thorough);
	for item in &items {
		translate_case(out, &item.bytes, None, None, item.label);
		let scheds = detect_scheds(rng, item.bytes.len());
		let picks: Vec<&Sched> = if thorough { scheds.iter().collect() } else { vec![&scheds[0], &scheds[1 + rng.below(3) as usize]] };
		for s in picks {
			translate_case(out, &item.bytes, Some(s), None, item.label);
		}
		if thorough || rng.chance(1, 3) {
			let k = rng.below(item.bytes.len() as u64 + 1) as usize;
			translate_case(out, &item.bytes, Some(&scheds[rng.below(4) as usize]), Some(k), "fault");
		}
		// How far the two concrete trials read.
		for f in [Fmt::Msgpack, Fmt::Json] {
			trialextent_case(out, f, &item.bytes, &scheds[0]);
			if thorough || rng.chance(1, 2) {
				trialextent_case(out, f, &item.bytes, &scheds[1 + rng.below(3) as usize]);
			}
		}
	}
	// Every prefix of a few fixed inputs: failures at every position.
	const FIXED: &[&[u8]] = &[
		b" [1, -2.5e+3, \"a\\u00e9\\n\", {\"k\": [true, null]}] 7",
		b"-12.5e-3 x",
		b"{\"a\" : 1e5, \"b\": 0.25}x",
		b"\"str\\\"\" 1",
		b"nullx",
		b"-0.0e0",
		&[0x93, 0xa3, 0x61, 0x62, 0x63, 0xcd, 0x01, 0x02, 0x82, 0x01, 0xc4, 0x02, 0xff, 0xfe, 0xc0, 0xd4, 0x05, 0x06, 0x07],
		&[0x92, 0xc7, 0x02, 0x09, 0x0a, 0x0b, 0xc1, 0x00],
		&[0xdc, 0x00, 0x02, 0xd9, 0x03, 0x61, 0x62, 0x63, 0xcb, 1, 2, 3, 4, 5, 6, 7, 8, 0x2a],
	];
	let all = Sched { caps: vec![], cycle: false };
	let one = Sched { caps: vec![1], cycle: true };
	for fixed in FIXED {
		for n in 0..=fixed.len() {
			for f in [Fmt::Msgpack, Fmt::Json] {
				trialextent_case(out, f, &fixed[..n], &all);
			}
			translate_case(out, &fixed[..n], Some(&one), None, "fixed.prefixes");
		}
	}
	out.count("trialextent.fixed_prefixes");
}
