//! Counting global allocator: live bytes and their peak, for the memory
//! statement of C05. Always on; two relaxed atomics per call.

use std::alloc::{GlobalAlloc, Layout, System};
use std::sync::atomic::{AtomicUsize, Ordering::Relaxed};

pub struct Counting;

static LIVE: AtomicUsize = AtomicUsize::new(0);
static PEAK: AtomicUsize = AtomicUsize::new(0);

#[inline]
fn add(n: usize) {
	let live = LIVE.fetch_add(n, Relaxed) + n;
	PEAK.fetch_max(live, Relaxed);
}

// SAFETY: every method forwards to `System` with the caller's arguments
// unchanged; the counters do not influence what is returned.
unsafe impl GlobalAlloc for Counting {
	unsafe fn alloc(&self, layout: Layout) -> *mut u8 {
		let p = unsafe { System.alloc(layout) };
		if !p.is_null() {
			add(layout.size());
		}
		p
	}
	unsafe fn alloc_zeroed(&self, layout: Layout) -> *mut u8 {
		let p = unsafe { System.alloc_zeroed(layout) };
		if !p.is_null() {
			add(layout.size());
		}
		p
	}
	unsafe fn dealloc(&self, ptr: *mut u8, layout: Layout) {
		unsafe { System.dealloc(ptr, layout) };
		LIVE.fetch_sub(layout.size(), Relaxed);
	}
	unsafe fn realloc(&self, ptr: *mut u8, layout: Layout, new_size: usize) -> *mut u8 {
		let p = unsafe { System.realloc(ptr, layout, new_size) };
		if !p.is_null() {
			if new_size >= layout.size() {
				add(new_size - layout.size());
			} else {
				LIVE.fetch_sub(layout.size() - new_size, Relaxed);
			}
		}
		p
	}
}

/// Live heap bytes now.
pub fn live() -> usize {
	LIVE.load(Relaxed)
}

/// Sets the peak to the current live size and returns that size.
pub fn reset_peak() -> usize {
	let l = LIVE.load(Relaxed);
	PEAK.store(l, Relaxed);
	l
}

/// Highest live size since the last `reset_peak`.
pub fn peak() -> usize {
	PEAK.load(Relaxed)
}
