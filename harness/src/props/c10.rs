//! C10 at the level of xt's API: output xt produced for a collection-rooted
//! document is recognised as the format it was written in.

use serde::Deserialize;

use crate::corpus::collection_docs;
use crate::gen::{spell, Spelling, Val};
use crate::out::Out;
use crate::util::{hex, Rng};
use crate::xtapi::{detect, random_supply, translate, Fmt, Supply, ALL_FMTS, STREAM_FMTS};

/// Independent decision (serde_json called directly): does the text begin
/// with a complete JSON value, i.e. would a JSON trial accept it?
fn json_accepts(b: &[u8]) -> bool {
	// "Accepts" in the sense of a detection trial: a complete first JSON value
	// can be read from the start of the text (`0o17 = 127` begins with `0`).
	let mut de = serde_json::Deserializer::from_slice(b);
	serde::de::IgnoredAny::deserialize(&mut de).is_ok()
}

/// Independent decision (serde_yaml called directly): is the text a YAML
/// stream whose first document is a mapping or a sequence?
fn yaml_collection(b: &[u8]) -> bool {
	let Ok(s) = std::str::from_utf8(b) else { return false };
	match serde_yaml::Deserializer::from_str(s).next() {
		Some(de) => matches!(serde_yaml::Value::deserialize(de), Ok(serde_yaml::Value::Mapping(_) | serde_yaml::Value::Sequence(_))),
		None => false,
	}
}

pub fn run(out: &mut Out, rng: &mut Rng, thorough: bool) {
	let docs = collection_docs(rng, if thorough { 3000 } else { 300 }, &[]);
	for (i, d) in docs.iter().enumerate() {
		for &f in &ALL_FMTS {
			if !d.representable(f) {
				continue;
			}
			// One or many documents (TOML: one).
			let n_docs = if f == Fmt::Toml || i % 3 != 0 { 1 } else { rng.range(2, 4) as usize };
			let a = *rng.pick(&[Fmt::Json, Fmt::Msgpack, Fmt::Yaml]);
			if !d.representable(a) {
				continue;
			}
			let Some(one) = spell(a, d, &Spelling::plain()) else { continue };
			let mut input = vec![];
			for k in 0..n_docs {
				if a == Fmt::Yaml {
					input.extend_from_slice(b"---\n");
				}
				input.extend_from_slice(&one);
				if a == Fmt::Json && k + 1 < n_docs {
					input.push(b'\n');
				}
			}
			let produced = translate(&input, &Supply::Slice, Some(a), f);
			if !produced.ok() {
				out.count("producing_translation.refused");
				continue;
			}
			let text = &produced.output;
			out.count(&format!("own_output.{}", f.name()));
			if f == Fmt::Toml && (json_accepts(text) || yaml_collection(text)) {
				// The property's own exclusion: an earlier trial accepts this text.
				out.count("own_output.toml.excluded_earlier_format_accepts");
				continue;
			}
			for supply in [Supply::Slice, random_supply(rng), Supply::Reader(vec![1])] {
				let det = detect(text, &supply);
				out.eval("own_output_detected", &format!("{}{}{}", f.name(), supply.describe(), hex(text)), true);
				if det != Ok(Some(f)) {
					out.fail(
						"own_output_detected",
						"",
						format!(
							"xt({}→{}) of {} produced {} which is detected ({}) as {:?}, not {}",
							a.name(),
							f.name(),
							d.short(),
							hex(text),
							supply.describe(),
							det,
							f.name()
						),
					);
					continue;
				}
				let x = if f == Fmt::Toml { *rng.pick(&ALL_FMTS) } else { *rng.pick(&STREAM_FMTS) };
				let implicit = translate(text, &supply, None, x);
				let explicit = translate(text, &supply, Some(f), x);
				out.eval("pipe_eq_pipe_f", &format!("{}{}{}{}", f.name(), x.name(), supply.describe(), hex(text)), explicit.ok());
				if implicit != explicit {
					out.fail(
						"pipe_eq_pipe_f",
						"",
						format!(
							"xt -t {} output {} fed back ({}) to -t {}: without -f gives {}, with -f {} gives {}",
							f.name(),
							hex(text),
							supply.describe(),
							x.name(),
							implicit.describe(),
							f.name(),
							explicit.describe()
						),
					);
				}
			}
		}
	}
	// xt's own TOML output of more than 2 MiB, fed back as a slice / mapped file
	// (the 2 MiB cutoff of the TOML trial is for not-yet-buffered readers only).
	let big = Val::Map((0..72_000).map(|i| (Val::Str(format!("k{i}")), Val::Str("xxxxxxxxxxxxxxxxxxxx".into()))).collect());
	if let Some(js) = spell(Fmt::Json, &big, &Spelling::plain()) {
		let produced = translate(&js, &Supply::Slice, Some(Fmt::Json), Fmt::Toml);
		if produced.ok() && produced.output.len() > 2 * 1024 * 1024 {
			let det = detect(&produced.output, &Supply::Slice);
			out.eval("own_output_detected", "big-toml-slice", true);
			if det != Ok(Some(Fmt::Toml)) {
				out.fail("own_output_detected", "", format!("xt(json→toml) of a 72 000-entry table produced {} bytes of TOML which, as a slice, is detected as {:?}, not toml", produced.output.len(), det));
			}
		} else {
			out.count("big_toml.not_produced");
		}
	}
	// xt's own JSON / YAML / MessagePack output whose FIRST document is larger
	// than 2 MiB (any bound a detection trial might put on what it reads), fed
	// back through readers and as a slice.
	let big_rows = Val::Seq(
		(0..60_000)
			.map(|i| Val::Map(vec![(Val::Str("id".into()), Val::Int(i as i128)), (Val::Str("name".into()), Val::Str(format!("row \"{i}\" \u{e9}: [x, y]"))), (Val::Str("tags".into()), Val::Seq(vec![Val::Bool(i % 2 == 0)]))]))
			.collect(),
	);
	// ... and one whose 2 MiB mark falls inside a single quoted scalar
	let big_string = Val::Map(vec![(Val::Str("k".into()), Val::Str("a: b \u{e9}# ".repeat(400_000))), (Val::Str("z".into()), Val::Int(1))]);
	for (what, doc) in [("60 000 rows", &big_rows), ("one 3.6 MB string", &big_string)] {
		let Some(js) = spell(Fmt::Json, doc, &Spelling::plain()) else { continue };
		for f in [Fmt::Json, Fmt::Yaml, Fmt::Msgpack] {
			let produced = translate(&js, &Supply::Slice, Some(Fmt::Json), f);
			if !produced.ok() || produced.output.len() <= 2 * 1024 * 1024 {
				out.count("big_own_output.not_produced");
				continue;
			}
			for supply in [Supply::Slice, Supply::Reader(vec![65536]), Supply::Reader(vec![4096]), Supply::Reader(vec![])] {
				let det = detect(&produced.output, &supply);
				out.eval("own_output_detected", &format!("big-{what}-{}-{}", f.name(), supply.describe()), true);
				if det != Ok(Some(f)) {
					out.fail(
						"own_output_detected",
						"",
						format!("xt(json→{}) of {what} produced {} bytes (one document) which, supplied as {}, is detected as {:?}, not {}", f.name(), produced.output.len(), supply.describe(), det, f.name()),
					);
					continue;
				}
				let implicit = translate(&produced.output, &supply, None, Fmt::Msgpack);
				let explicit = translate(&produced.output, &supply, Some(f), Fmt::Msgpack);
				out.eval("pipe_eq_pipe_f", &format!("big-{what}-{}-{}", f.name(), supply.describe()), explicit.ok());
				if implicit != explicit {
					out.fail("pipe_eq_pipe_f", "", format!("xt -t {} output of {} bytes fed back ({}) to -t msgpack: without -f {} / with -f {}", f.name(), produced.output.len(), supply.describe(), if implicit.ok() { "ok".into() } else { format!("{:?}", implicit.result) }, if explicit.ok() { "ok".into() } else { format!("{:?}", explicit.result) }));
				}
			}
		}
	}
	let _ = Val::Null;
}
