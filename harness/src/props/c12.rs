//! C12 at the level of xt's API: reader faults, writer faults and short writes.

use crate::corpus;
use crate::out::Out;
use crate::util::{catch, hex, FaultWriter, Rng, SchedReader, READ_FAULT_TEXT};
use crate::xtapi::{translate, Fmt, Outcome, Supply, ALL_FMTS};

fn run_with(input: &[u8], sched: Vec<usize>, fail_at: Option<usize>, from: Option<Fmt>, to: Fmt, w: &mut FaultWriter) -> Result<(), String> {
	let r = catch(|| {
		let reader = SchedReader::new(input, sched, true, fail_at);
		xt::translate_reader(reader, from.map(Fmt::xt), to.xt(), &mut *w)
	});
	match r {
		Ok(Ok(())) => Ok(()),
		Ok(Err(e)) => Err(e.to_string()),
		Err(p) => Err(format!("PANIC: {p}")),
	}
}

fn run_slice_with(input: &[u8], from: Option<Fmt>, to: Fmt, w: &mut FaultWriter) -> Result<(), String> {
	let r = catch(|| xt::translate_slice(input, from.map(Fmt::xt), to.xt(), &mut *w));
	match r {
		Ok(Ok(())) => Ok(()),
		Ok(Err(e)) => Err(e.to_string()),
		Err(p) => Err(format!("PANIC: {p}")),
	}
}

/// Faults far into BIG inputs (beyond any bound a detection trial might put on
/// what it reads): the reader's text must still be in the error.
fn big_input_faults(out: &mut Out) {
	let big_json = {
		let mut s = String::with_capacity(10 << 20);
		s.push('[');
		let mut i = 0u64;
		while s.len() < (9 << 20) {
			if i > 0 {
				s.push(',');
			}
			s.push_str(&format!("{{\"id\":{i},\"v\":\"0123456789abcdef\"}}"));
			i += 1;
		}
		s.push_str("]\n");
		s.into_bytes()
	};
	let yaml_text = format!("k: \"{}\"\nn: 1\n", "x\u{e9}".repeat(100_000));
	let big_utf16 = crate::engines::encoding::encode_text(&yaml_text, 1, true);
	let big_utf32 = crate::engines::encoding::encode_text(&yaml_text, 4, false);
	let big_yaml = yaml_text.clone().into_bytes();
	let big_msgpack = {
		let mut v = vec![0xdd, 0x00, 0x10, 0x00, 0x00];
		v.extend(std::iter::repeat(0x01u8).take(1 << 20));
		v
	};
	for (what, input) in [("9 MiB JSON array", &big_json), ("UTF-16LE YAML of 400 KB", &big_utf16), ("UTF-32BE YAML of 800 KB", &big_utf32), ("UTF-8 YAML of 300 KB", &big_yaml), ("1 MiB MessagePack array", &big_msgpack)] {
		let len = input.len();
		let mut offsets = vec![len, len - 1, len / 2, 262_144, 262_145, 1 << 20, (2 << 20) + 1, (8 << 20) + 5];
		offsets.retain(|k| *k <= len);
		offsets.dedup();
		for from in [None] {
			for k in &offsets {
				for sched in [vec![], vec![65536]] {
					let mut w = FaultWriter::new(None, vec![]);
					let r = run_with(input, sched.clone(), Some(*k), from, Fmt::Json, &mut w);
					out.eval("reader_fault", &format!("big {what} {k} {sched:?}"), true);
					let problem = match &r {
						Ok(()) => Some("returned success".to_string()),
						Err(e) if e.starts_with("PANIC") => Some(format!("panicked: {e}")),
						Err(e) if !e.contains(READ_FAULT_TEXT) => Some(format!("error text lost the reader's message: {e}")),
						Err(_) => None,
					};
					if let Some(p) = problem {
						out.fail("reader_fault", "", format!("{what} ({len} bytes) from=detect to=json reader(caps {sched:?}) failing once {k} bytes were delivered: {p}"));
					}
				}
				// the same fault as an error of another kind (what a decompressor,
				// a socket or a device reports)
				for flavour in [0u8, 2, 5, 100] {
					let mut w = FaultWriter::new(None, vec![]);
					let r = catch(|| {
						let reader = PlainFault { inner: SchedReader::new(input, vec![], true, None), at: *k, flavour };
						xt::translate_reader(reader, None, xt::Format::Json, &mut w)
					});
					let want = plain_error(flavour).to_string();
					out.eval("reader_fault_plain_error", &format!("big {what} {k} {flavour}"), true);
					let problem = match &r {
						Err(p) => Some(format!("panicked: {p}")),
						Ok(Ok(())) => Some("returned success".to_string()),
						Ok(Err(e)) if !e.to_string().contains(want.as_str()) => Some(format!("error text lost the reader's message ({want:?}): {e}")),
						Ok(Err(_)) => None,
					};
					if let Some(p) = problem {
						out.fail("reader_fault", "", format!("{what} ({len} bytes) from=detect to=json, reader failing with the error {want:?} ({:?}) once {k} bytes were delivered: {p}", plain_error(flavour).kind()));
					}
				}
			}
		}
	}
}

/// A reader whose fault is an error WITHOUT a custom payload: an OS error
/// (`EIO`) or a bare `ErrorKind` — what real files, pipes and sockets produce.
struct PlainFault {
	inner: SchedReader,
	at: usize,
	/// 0 = OS error EIO, 1.. = bare kinds, 100 = UnexpectedEof WITH a text
	flavour: u8,
}

fn plain_error(flavour: u8) -> std::io::Error {
	use std::io::ErrorKind as K;
	match flavour {
		0 => std::io::Error::from_raw_os_error(5),
		1 => K::TimedOut.into(),
		2 => K::ConnectionReset.into(),
		3 => K::ConnectionAborted.into(),
		4 => K::BrokenPipe.into(),
		5 => K::UnexpectedEof.into(),
		6 => K::PermissionDenied.into(),
		7 => K::NotConnected.into(),
		_ => std::io::Error::new(K::UnexpectedEof, READ_FAULT_TEXT),
	}
}

impl std::io::Read for PlainFault {
	fn read(&mut self, buf: &mut [u8]) -> std::io::Result<usize> {
		if self.inner.pos >= self.at {
			return Err(plain_error(self.flavour));
		}
		let room = self.at - self.inner.pos;
		let n = buf.len().min(room);
		self.inner.read(&mut buf[..n])
	}
}

fn plain_faults(out: &mut Out, items: &[(Fmt, Vec<u8>)], thorough: bool) {
	for (idx, (f, input)) in items.iter().enumerate() {
		if !thorough && idx % 3 != 0 {
			continue;
		}
		for from in [Some(*f), None] {
			let clean = translate(input, &Supply::Reader(vec![]), from, Fmt::Json);
			if !clean.ok() {
				continue;
			}
			for k in 0..=input.len() {
				for flavour in [0u8, 1, 2, 3, 4, 5, 6, 7, 100] {
					if !thorough && flavour > 1 && (k + flavour as usize + idx) % 3 != 0 {
						continue;
					}
					let os = flavour == 0;
					let mut w = FaultWriter::new(None, vec![]);
					let r = catch(|| {
						let reader = PlainFault { inner: SchedReader::new(input, vec![], true, None), at: k, flavour };
						xt::translate_reader(reader, from.map(Fmt::xt), xt::Format::Json, &mut w)
					});
					let want = &plain_error(flavour).to_string();
					out.eval("reader_fault_plain_error", &format!("{}{:?}{k}{flavour}", hex(input), from.map(Fmt::name)), true);
					let problem = match &r {
						Err(p) => Some(format!("panicked: {p}")),
						Ok(Ok(())) => Some("returned success".to_string()),
						Ok(Err(e)) if !e.to_string().contains(want.as_str()) => Some(format!("error text lost the reader's message ({want:?}): {e}")),
						Ok(Err(_)) => None,
					};
					if let Some(p) = problem {
						out.fail(
							"reader_fault",
							"",
							format!("input {} from={} to=json, reader failing with {} once {k} bytes were delivered: {p}", hex(input), from.map(Fmt::name).unwrap_or("detect"), if os { "an OS error (EIO)".to_string() } else { format!("the error {:?} ({:?})", plain_error(flavour).to_string(), plain_error(flavour).kind()) }),
						);
					}
				}
			}
		}
	}
}

pub fn run(out: &mut Out, rng: &mut Rng, thorough: bool) {
	big_input_faults(out);
	let mut items = vec![];
	for &f in &ALL_FMTS {
		for _ in 0..(if thorough { 120 } else { 25 }) {
			let s = corpus::valid_stream(rng, f, 3);
			if s.len() <= (if thorough { 600 } else { 220 }) {
				items.push((f, s));
			}
		}
	}
	// Documents closed by the explicit `...` end marker, comments between documents.
	for y in [
		&b"a: 1\nb: [1, 2, 3]\n...\n"[..],
		b"a: 1\n...\n---\nb: 2\n...\n",
		b"- x\n...\n# comment\n---\n- y\n...\n# tail comment\n",
		b"--- {a: 1}\n...\n--- [2]\n",
	] {
		items.push((Fmt::Yaml, y.to_vec()));
	}
	for j in [&b"{\"a\":1}\n{\"b\":2}\n"[..], b"[1]  \n\n[2]"] {
		items.push((Fmt::Json, j.to_vec()));
	}
	items.push((Fmt::Msgpack, b"\x91\x01\x81\xa1a\x02\x90".to_vec()));
	// YAML in UTF-16 / UTF-32 (a fault may strike inside a code unit or between
	// the two halves of a surrogate pair).
	for enc in 1..=4u8 {
		for (text, bom) in [("a: 1\nb: [1, 2, \u{e9}]\n---\n- x\u{1F600}y\n", false), ("k: v\n---\n- \u{20ac}\n", true)] {
			items.push((Fmt::Yaml, crate::engines::encoding::encode_text(text, enc, bom)));
		}
	}
	plain_faults(out, &items, thorough);
	for (f, input) in &items {
		for from in [Some(*f), None] {
			let tos: Vec<Fmt> = if thorough { ALL_FMTS.to_vec() } else { vec![*rng.pick(&ALL_FMTS), *rng.pick(&ALL_FMTS)] };
			for to in tos {
				let clean: Outcome = translate(input, &Supply::Reader(vec![]), from, to);
				out.count(if clean.ok() { "fault_free.ok" } else { "fault_free.err" });
				// --- the reader starts failing once k bytes were delivered
				let scheds: Vec<Vec<usize>> = vec![vec![], vec![1], vec![rng.range(2, 9) as usize]];
				for k in 0..=input.len() {
					let sched = rng.pick(&scheds).clone();
					let mut w = FaultWriter::new(None, vec![]);
					let r = run_with(input, sched.clone(), Some(k), from, to, &mut w);
					out.eval("reader_fault", &format!("{}{:?}{}{k}", hex(input), from.map(Fmt::name), to.name()), clean.ok());
					let problem = match &r {
						Ok(()) => Some("returned success".to_string()),
						Err(e) if e.starts_with("PANIC") => Some(format!("panicked: {e}")),
						Err(e) if clean.ok() && !e.contains(READ_FAULT_TEXT) => Some(format!("error text lost the reader's message: {e}")),
						Err(_) if clean.ok() && !clean.output.starts_with(&w.accepted) => {
							Some(format!("wrote {} which is not a prefix of the fault-free output {}", hex(&w.accepted), hex(&clean.output)))
						}
						Err(_) => None,
					};
					if let Some(p) = problem {
						out.fail(
							"reader_fault",
							"",
							format!(
								"input {} from={} to={} reader(caps {:?}) failing once {k} bytes were delivered: {p}",
								hex(input),
								from.map(Fmt::name).unwrap_or("detect"),
								to.name(),
								sched
							),
						);
					}
				}
				if !clean.ok() {
					continue;
				}
				// --- one transient `Interrupted` from the reader at offset k (not in
				// the property's quantifier, which has readers that KEEP failing;
				// kept because it exposes swallowed errors): the translation may
				// fail, or go on and give the fault-free output; it must never
				// succeed with something else (documents dropped). With detection
				// a trial that saw the interruption may decline and a later trial
				// accept the (complete) input: the fault-free output under any
				// explicit format is accepted there.
				let alternatives: Vec<Vec<u8>> = if from.is_none() {
					ALL_FMTS.iter().map(|f| translate(input, &Supply::Reader(vec![]), Some(*f), to)).filter(|o| o.ok()).map(|o| o.output).collect()
				} else {
					vec![]
				};
				for k in 0..=input.len() {
					let mut w = FaultWriter::new(None, vec![]);
					let r = catch(|| {
						let reader = crate::util::InterruptOnce { inner: SchedReader::new(input, vec![], true, None), at: k, fired: false };
						xt::translate_reader(reader, from.map(Fmt::xt), to.xt(), &mut w)
					});
					out.eval("transient_interrupt", &format!("{}{:?}{}{k}", hex(input), from.map(Fmt::name), to.name()), true);
					let problem = match &r {
						Err(p) => Some(format!("panicked: {p}")),
						Ok(Ok(())) if w.accepted != clean.output && !alternatives.contains(&w.accepted) => {
							Some(format!("returned success with output {} instead of {}", hex(&w.accepted), hex(&clean.output)))
						}
						_ => None,
					};
					if let Some(p) = problem {
						out.fail(
							"transient_interrupt",
							"",
							format!("input {} from={} to={} reader interrupted once at offset {k}: {p}", hex(input), from.map(Fmt::name).unwrap_or("detect"), to.name()),
						);
					}
				}
				// --- the writer starts failing after accepting k bytes
				for k in 0..clean.output.len() {
					for slice in [false, true] {
						if slice && !thorough && k % 3 != 0 {
							continue;
						}
						let mut w = FaultWriter::new(Some(k), vec![]);
						let r = if slice { run_slice_with(input, from, to, &mut w) } else { run_with(input, vec![], None, from, to, &mut w) };
						out.eval("writer_fault", &format!("{}{:?}{}{k}{slice}", hex(input), from.map(Fmt::name), to.name()), true);
						let problem = match &r {
							Ok(()) => Some("returned success".to_string()),
							Err(e) if e.starts_with("PANIC") => Some(format!("panicked: {e}")),
							Err(_) if w.accepted != clean.output[..k] => {
								Some(format!("accepted bytes {} are not the first {k} bytes of the fault-free output {}", hex(&w.accepted), hex(&clean.output)))
							}
							Err(_) => None,
						};
						if let Some(p) = problem {
							out.fail(
								"writer_fault",
								"",
								format!(
									"input {} from={} to={} ({}) writer failing after {k} bytes: {p}",
									hex(input),
									from.map(Fmt::name).unwrap_or("detect"),
									to.name(),
									if slice { "slice" } else { "reader" }
								),
							);
						}
					}
				}
				// --- a writer that accepts only short pieces
				for piece in [vec![1usize], vec![2, 1, 3], vec![7], (0..5).map(|_| rng.range(1, 12) as usize).collect()] {
					let mut w = FaultWriter::new(None, piece.clone());
					let r = run_with(input, vec![rng.range(1, 9) as usize], None, from, to, &mut w);
					out.eval("short_writes", &format!("{}{:?}{}{:?}", hex(input), from.map(Fmt::name), to.name(), piece), true);
					if r.is_err() || w.accepted != clean.output {
						out.fail(
							"short_writes",
							"",
							format!(
								"input {} from={} to={} writer accepting pieces {:?}: result {:?}, received {} instead of {}",
								hex(input),
								from.map(Fmt::name).unwrap_or("detect"),
								to.name(),
								piece,
								r,
								hex(&w.accepted),
								hex(&clean.output)
							),
						);
					}
				}
			}
		}
	}
}
