//! C02 at the level of xt's API: the result of a translation depends only on
//! the input bytes and the chosen formats, not on how the bytes are supplied.

use crate::corpus;
use crate::gen::read_docs;
use crate::out::Out;
use crate::util::{hex, Rng};
use crate::xtapi::{translate, Fmt, Outcome, Supply, ALL_FMTS};

fn is_sep(b: u8) -> bool {
	matches!(b, b' ' | b'\n' | b'\t' | b'\r' | b'"' | b'[' | b']' | b'{' | b'}' | b',' | b':')
}

/// Skips one JSON string starting at the opening quote; returns the index
/// after the closing quote.
fn skip_string(b: &[u8], mut i: usize) -> Option<usize> {
	i += 1;
	while i < b.len() {
		match b[i] {
			b'\\' => i += 2,
			b'"' => return Some(i + 1),
			_ => i += 1,
		}
	}
	None
}

fn skip_number(b: &[u8], mut i: usize) -> Option<usize> {
	if i < b.len() && b[i] == b'-' {
		i += 1;
	}
	if i >= b.len() {
		return None;
	}
	if b[i] == b'0' {
		i += 1;
	} else if b[i].is_ascii_digit() {
		while i < b.len() && b[i].is_ascii_digit() {
			i += 1;
		}
	} else {
		return None;
	}
	if i + 1 < b.len() && b[i] == b'.' && b[i + 1].is_ascii_digit() {
		i += 1;
		while i < b.len() && b[i].is_ascii_digit() {
			i += 1;
		}
	}
	if i < b.len() && (b[i] == b'e' || b[i] == b'E') {
		let mut j = i + 1;
		if j < b.len() && (b[j] == b'+' || b[j] == b'-') {
			j += 1;
		}
		if j < b.len() && b[j].is_ascii_digit() {
			while j < b.len() && b[j].is_ascii_digit() {
				j += 1;
			}
			i = j;
		}
	}
	Some(i)
}

/// Known finding K1's class, decided by an independent top-level scan: some
/// top-level scalar (literal or number) is immediately followed by a byte that
/// is neither whitespace nor one of `" [ ] { } , :`.
pub fn json_has_unseparated_scalar(b: &[u8]) -> bool {
	let mut i = 0;
	loop {
		while i < b.len() && matches!(b[i], b' ' | b'\n' | b'\t' | b'\r') {
			i += 1;
		}
		if i >= b.len() {
			return false;
		}
		match b[i] {
			b'"' => match skip_string(b, i) {
				Some(j) => i = j,
				None => return false,
			},
			b'[' | b'{' => {
				let mut depth = 0usize;
				loop {
					if i >= b.len() {
						return false;
					}
					match b[i] {
						b'"' => match skip_string(b, i) {
							Some(j) => {
								i = j;
								continue;
							}
							None => return false,
						},
						b'[' | b'{' => depth += 1,
						b']' | b'}' => {
							depth -= 1;
							if depth == 0 {
								i += 1;
								break;
							}
						}
						_ => {}
					}
					i += 1;
				}
			}
			_ => {
				let end = if b[i..].starts_with(b"true") || b[i..].starts_with(b"null") {
					Some(i + 4)
				} else if b[i..].starts_with(b"false") {
					Some(i + 5)
				} else {
					skip_number(b, i)
				};
				match end {
					None => return false,
					Some(j) => {
						if j < b.len() && !is_sep(b[j]) {
							return true;
						}
						i = j;
					}
				}
			}
		}
	}
}

/// Known finding K2's class: a YAML stream without any document (decided from
/// libyaml's own event trace: no DOCUMENT-START event, no error).
pub fn yaml_has_zero_documents(b: &[u8]) -> bool {
	let Ok(_) = std::str::from_utf8(b) else { return false };
	let (events, err) = xt::verif::yaml_events(Box::new(b));
	err.is_none() && !events.iter().any(|e| e.0 == 3)
}

/// Known finding K3's class: JSON input in which some object repeats a key.
pub fn json_has_dup_key(b: &[u8]) -> bool {
	match read_docs(Fmt::Json, b) {
		Ok(docs) => docs.iter().any(|d| d.has_dup_keys()),
		Err(_) => {
			// A later document may be malformed; look at the readable prefix.
			let mut any = false;
			for v in serde_json::Deserializer::from_slice(b).into_iter::<crate::gen::Val>() {
				match v {
					Ok(d) => any |= d.has_dup_keys(),
					Err(_) => break,
				}
			}
			any
		}
	}
}

/// Known finding K11's class: JSON input that spells the `toml` crate's private
/// date-time key as an object key.
pub fn json_has_toml_datetime_key(b: &[u8]) -> bool {
	let key = b"\"$__toml_private_datetime\"";
	b.windows(key.len()).any(|w| w == key)
}

/// Known finding K7's class (first half): a complete first JSON value can be
/// read from the start of the bytes without any UTF-8 check (what the JSON
/// detection trial does on a reader).
pub fn json_first_value_parses(b: &[u8]) -> bool {
	use serde::Deserialize;
	let mut de = serde_json::Deserializer::from_slice(b);
	serde::de::IgnoredAny::deserialize(&mut de).is_ok()
}

fn prefix_comparable(a: &[u8], b: &[u8]) -> bool {
	a.starts_with(b) || b.starts_with(a)
}

pub fn supplies(rng: &mut Rng, len: usize, thorough: bool) -> Vec<Supply> {
	let mut v = vec![Supply::Reader(vec![]), Supply::Reader(vec![1]), Supply::Reader((0..4).map(|_| rng.range(1, 9) as usize).collect())];
	if len > 2 {
		// One cut at a chosen offset (inside multi-byte characters, escapes,
		// length prefixes, separators — wherever it falls), then everything.
		let cut = rng.range(1, len as u64 - 1) as usize;
		v.push(Supply::Reader(vec![cut, usize::MAX / 2]));
	}
	if thorough {
		v.push(Supply::Reader(vec![2]));
		v.push(Supply::Reader(vec![3, 1]));
		v.push(Supply::Reader(vec![7]));
		v.push(Supply::Reader((0..6).map(|_| rng.range(1, 64) as usize).collect()));
	}
	v
}

/// Which format a `None` source resolves to for the known-finding classes.
fn effective_from(from: Option<Fmt>, bytes: &[u8]) -> Option<Fmt> {
	from.or_else(|| crate::xtapi::detect(bytes, &Supply::Slice).ok().flatten())
}

pub fn compare(out: &mut Out, label: &str, bytes: &[u8], from: Option<Fmt>, to: Fmt, slice: &Outcome, supply: &Supply, got: &Outcome) {
	let same_verdict = slice.ok() == got.ok();
	let ok = if !same_verdict {
		false
	} else if slice.ok() {
		slice.output == got.output
	} else {
		prefix_comparable(&slice.output, &got.output)
	};
	if ok {
		return;
	}
	let eff = effective_from(from, bytes);
	let class = if eff == Some(Fmt::Json) && json_has_unseparated_scalar(bytes) {
		"K1-json-unseparated-scalar"
	} else if (eff == Some(Fmt::Yaml) || (from.is_none() && eff.is_none())) && yaml_has_zero_documents(bytes) {
		"K2-yaml-zero-documents"
	} else if eff == Some(Fmt::Json) && to == Fmt::Toml && json_has_dup_key(bytes) {
		"K3-json-dup-key-to-toml"
	} else if eff == Some(Fmt::Json) && to == Fmt::Toml && json_has_toml_datetime_key(bytes) {
		"K11-json-toml-datetime-key"
	} else if from.is_none() && std::str::from_utf8(bytes).is_err() && json_first_value_parses(bytes) && eff != Some(Fmt::Json) {
		// Detection chose differently in the two supply modes (K7).
		"K7-json-trial-non-utf8"
	} else {
		""
	};
	out.fail(
		"slice_eq_reader",
		class,
		format!(
			"[{label}] input {} from={} to={}: slice gives {} but {} gives {}",
			hex(bytes),
			from.map(Fmt::name).unwrap_or("detect"),
			to.name(),
			slice.describe(),
			supply.describe(),
			got.describe()
		),
	);
}

pub fn run(out: &mut Out, rng: &mut Rng, thorough: bool) {
	let items = corpus::build(rng, if thorough { 150 } else { 25 }, thorough);
	for item in &items {
		out.count(&format!("corpus.{}", item.label.split('.').next().unwrap_or("")));
		let froms: Vec<Option<Fmt>> = if thorough || item.label.starts_with("fixed") {
			vec![None, Some(Fmt::Json), Some(Fmt::Msgpack), Some(Fmt::Toml), Some(Fmt::Yaml)]
		} else {
			// Quick: detection plus two explicit formats (always the one the label names).
			let named = ALL_FMTS.iter().copied().find(|f| item.label.contains(f.name()));
			let mut v = vec![None, Some(*rng.pick(&ALL_FMTS))];
			if let Some(f) = named {
				v.push(Some(f));
			}
			v
		};
		let tos: Vec<Fmt> = if thorough || item.label.starts_with("fixed") || item.label.starts_with("wide") {
			ALL_FMTS.to_vec()
		} else {
			// TOML is always a target: it is the one whose slice and reader
			// routes differ inside xt (Value::try_from vs Value::deserialize).
			vec![Fmt::Toml, *rng.pick(&[Fmt::Json, Fmt::Yaml, Fmt::Msgpack])]
		};
		for from in &froms {
			for to in &tos {
				let slice = translate(&item.bytes, &Supply::Slice, *from, *to);
				out.count(if slice.ok() { "slice.ok" } else { "slice.err" });
				for supply in supplies(rng, item.bytes.len(), thorough) {
					let got = translate(&item.bytes, &supply, *from, *to);
					out.eval(
						"slice_eq_reader",
						&format!("{}{:?}{}{}", hex(&item.bytes), from.map(Fmt::name), to.name(), supply.describe()),
						slice.ok() && !slice.output.is_empty(),
					);
					compare(out, &item.label, &item.bytes, *from, *to, &slice, &supply, &got);
				}
			}
		}
	}
	out.sample(format!("corpus of {} inputs, e.g. {:?}", items.len(), items.iter().skip(40).take(3).map(|i| (i.label.clone(), hex(&i.bytes))).collect::<Vec<_>>()));
}
