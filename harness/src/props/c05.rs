//! C05 at the level of xt's API: streaming translation has bounded lag and
//! bounded memory.
//!
//! Lag: for generated streams of JSON / MessagePack / YAML documents and
//! packetisations of the source, the real interleaving of source reads and
//! output writes of `xt::translate_reader` is recorded and must be accepted by
//! the acceptor of the property ("no read request at an offset >= end(k+2)
//! before the translation of document k has been written"); the tighter
//! statement measured on the code (JSON: k itself + 1 byte of look-ahead,
//! MessagePack: k itself, YAML: k+1) is evaluated too and counted separately —
//! it is how the `DemandDriven` hypotheses of the theorems are sampled.
//!
//! Memory: peak live heap (counting global allocator) while translating N
//! equal documents from a source that does not hold the stream, into a writer
//! that discards, must not grow with N.

use crate::alloc;
use crate::engines::stream::{
	delayed, first_bad, gen_stream, out_ends, packetisation, run_real, slurped, sorted, tight, trace_field, verdict, Ev, LogWriter, Packets, RepeatReader, Stream, StreamOpts, MAX_EVENTS,
};
use crate::out::Out;
use crate::util::{catch, nats, Rng};
use crate::xtapi::{self, Fmt, Supply, STREAM_FMTS};

fn describe_ev(trace: &[Ev], i: usize) -> String {
	let lo = i.saturating_sub(3);
	let hi = (i + 2).min(trace.len());
	format!("event #{i} = {:?} (events {lo}..{hi}: {})", trace[i], trace_field(&trace[lo..hi]))
}

/// Smallest d in 0..=3 for which the trace is accepted with `la` bytes of slack.
fn measured_d(la: usize, ends: &[usize], outs: &[usize], trace: &[Ev]) -> usize {
	(0..=3).find(|d| first_bad(*d, la, ends, outs, trace).is_none()).unwrap_or(4)
}

/// Largest number of input bytes delivered beyond the start of the first
/// document not yet written, over all reads.
fn max_in_flight(s: &Stream, outs: &[usize], trace: &[Ev]) -> usize {
	let mut k = 0;
	let mut w = 0;
	let mut best = 0;
	for e in trace {
		match *e {
			Ev::Wr(n) => w += n,
			Ev::Rd(off, n) => {
				while k < outs.len() && outs[k] <= w {
					k += 1;
				}
				let start = if k == 0 { 0 } else { s.ends[k - 1] };
				best = best.max((off + n).saturating_sub(start));
			}
		}
	}
	best
}

struct Shape {
	/// compare the real trace with the loop model's
	model: bool,
}

fn one_run(out: &mut Out, s: &Stream, outs: &[usize], to: Fmt, packets: &Packets, detected: bool, shape: &Shape, neg: bool) {
	let from = if detected { None } else { Some(s.fmt) };
	let r = run_real(&s.data, packets, from, to);
	let what = format!("{} -> {} ({}), source {}", s.desc, to.name(), if detected { "detected" } else { "explicit" }, packets.describe());
	if let Err(e) = &r.result {
		out.fail("stream_translates", "", format!("{what}: translation fails: {e}"));
		return;
	}
	if Some(&r.written) != outs.last() && !outs.is_empty() {
		out.fail("concat_of_singles", "", format!("{what}: {} bytes written, the single-document translations add up to {:?}", r.written, outs.last()));
		return;
	}
	let n = s.ends.len();
	let key = format!("{what} seed-bytes {}", s.data.len());
	out.count(&format!("runs.{}.{}.{}", s.fmt.name(), if detected { "detected" } else { "explicit" }, to.name()));
	out.count(&format!("packets.{}", match packets { Packets::All => "all", Packets::Every(1) => "1-byte", Packets::Every(_) => "fixed", Packets::At(_) => "cuts" }));
	out.count(&format!("trace_events.{}", match r.trace.len() { 0..=99 => "<100", 100..=999 => "100-999", 1000..=9999 => "1000-9999", 10_000..=99_999 => "10^4-10^5", _ => ">=10^5" }));
	out.count(&format!("docs.{}", match n { 0..=2 => "0-2", 3..=29 => "3-29", 30..=300 => "30-300", 301..=3000 => "301-3000", _ => "3001+" }));

	// The statement of the property.
	let bad = first_bad(2, 0, &s.ends, outs, &r.trace);
	out.eval("lag_ok", &key, n >= 3);
	if let Some(i) = bad {
		out.fail(
			"lag_ok",
			"",
			format!(
				"{what}: the reader is asked for data beyond document k+2 before document k is written: {}; ends={} outEnds={}",
				describe_ev(&r.trace, i),
				nats(&s.ends[..n.min(12)]),
				nats(&outs[..n.min(12)])
			),
		);
	}
	// The tighter statement (samples DemandDriven).
	let (d, la) = tight(s.fmt);
	let min_len = match s.fmt {
		Fmt::Json => 1,
		Fmt::Msgpack => 0,
		_ => 4,
	};
	let spaced = s.ends.windows(2).all(|w| w[0] + min_len <= w[1]);
	out.count(&format!("hyp.Spaced.{}.{}", s.fmt.name(), if spaced { "holds" } else { "MISSED" }));
	let tbad = first_bad(d, la, &s.ends, outs, &r.trace);
	out.eval("lag_tight", &key, n > d);
	out.count(&format!("hyp.DemandDriven.{}.{}", s.fmt.name(), if tbad.is_none() { "holds" } else { "MISSED" }));
	if let Some(i) = tbad {
		out.sample(format!("tight lag (d={d}, la={la}) missed: {what}: {}", describe_ev(&r.trace, i)));
	}
	out.count(&format!("measured.{}.d_at_la0={}", s.fmt.name(), measured_d(0, &s.ends, outs, &r.trace)));
	out.count(&format!("measured.{}.d_at_la1={}", s.fmt.name(), measured_d(1, &s.ends, outs, &r.trace)));
	let max_doc = (0..n).map(|i| s.ends[i] - if i == 0 { 0 } else { s.ends[i - 1] }).max().unwrap_or(0);
	let inflight = max_in_flight(s, outs, &r.trace);
	out.count(&format!("held.in_flight_minus_max_doc.{}", match inflight.saturating_sub(max_doc) { 0 => "0", 1..=4 => "1-4", 5..=8192 => "5-8192", 8193..=16388 => "8193-16388", _ => "MORE" }));

	if r.trace.len() <= MAX_EVENTS {
		let ends_f = nats(&s.ends);
		let outs_f = nats(outs);
		let tr = trace_field(&r.trace);
		out.case("lagok", &format!("0 {ends_f} {outs_f} {tr}"), &verdict(bad), n >= 3);
		out.case("lagat", &format!("{d} {la} {ends_f} {outs_f} {tr}"), &verdict(tbad), n > d);
		if neg && n >= 3 {
			// Traces that must be rejected (both acceptors must agree on where).
			let sl = slurped(&r.trace);
			out.case("lagok", &format!("0 {ends_f} {outs_f} {}", trace_field(&sl)), &verdict(first_bad(2, 0, &s.ends, outs, &sl)), true);
			let dl = delayed(&r.trace, 3);
			out.case("lagok", &format!("0 {ends_f} {outs_f} {}", trace_field(&dl)), &verdict(first_bad(2, 0, &s.ends, outs, &dl)), true);
			out.case("lagat", &format!("{d} {la} {ends_f} {outs_f} {}", trace_field(&dl)), &verdict(first_bad(d, la, &s.ends, outs, &dl)), true);
			if first_bad(2, 0, &s.ends, outs, &sl).is_none() {
				out.count("negative.slurp_trace_accepted(last packet holds documents n-3..)");
			} else {
				out.count("negative.slurp_trace_rejected");
			}
		}
		if shape.model && !detected {
			let kind = s.fmt.name();
			let cap = if s.fmt == Fmt::Yaml { 16384 } else { 8192 };
			out.case("loopmodel", &format!("{kind} {ends_f} {outs_f} {} {cap}", nats(&packets.sizes(s.data.len()))), &tr, true);
		}
	} else {
		out.count(&format!("traces.too_long_for_case_line(rust acceptor only).events>={}", if r.trace.len() >= 1_000_000 { "10^6" } else { "300000" }));
	}
}

fn lag_part(out: &mut Out, rng: &mut Rng, thorough: bool) {
	let streams_per_fmt = if thorough { 14 } else { 5 };
	for f in STREAM_FMTS {
		for si in 0..streams_per_fmt {
			// size classes: small documents; a few big ones; scalar-free plain streams for the shape comparison
			let shape_stream = si % 5 == 0;
			let n = match si % 5 {
				0 => rng.range(6, 24),
				1 => rng.range(30, 300),
				2 => rng.range(3, 40),
				3 => rng.range(100, 300),
				_ => rng.range(30, 120),
			} as usize;
			let big = if si % 5 == 2 { rng.range(1, 3) as usize } else { 0 };
			let opts = StreamOpts {
				n,
				scalar_free: shape_stream || rng.chance(1, 3),
				first_collection: true,
				big,
				big_size: if thorough { 400_000 } else { 150_000 },
				plain: shape_stream,
			};
			let s = gen_stream(rng, f, &opts);
			if s.ends.len() < 3 || !sorted(&s.ends) {
				out.count("skipped.stream_too_short");
				continue;
			}
			let can_detect = matches!(xtapi::detect(&s.data, &Supply::Reader(vec![])), Ok(Some(d)) if d == f);
			if !can_detect {
				out.count(&format!("detect.other_format_or_none.{}", f.name()));
			}
			for to in STREAM_FMTS {
				let outs = match out_ends(&s, to) {
					Ok(o) => o,
					Err(e) => {
						out.count("skipped.single_document_does_not_translate");
						out.sample(format!("skipped: {e}"));
						continue;
					}
				};
				let total = s.data.len();
				for kind in 0..8u64 {
					// keep traces of byte-wise packetisations of big streams out of the case file
					if (kind == 4 && total > 30_000) || (kind == 3 && total > 400_000 && !thorough) {
						continue;
					}
					let packets = packetisation(rng, &s, kind);
					// the loop model's trace is exactly determined when every packet holds
					// whole documents (JSON / MessagePack: self-delimited documents, stream
					// smaller than the buffer) and, for YAML (documents are translated
					// whole), for every packetisation
					let small = s.singles.iter().all(|d| d.len() < 4000) && total < 8000;
					let model = shape_stream && small && (f == Fmt::Yaml || matches!(kind, 0 | 1 | 2 | 7));
					for detected in [false, true] {
						if detected && !can_detect {
							continue;
						}
						one_run(out, &s, &outs, to, &packets, detected, &Shape { model }, kind % 3 == 0);
					}
				}
			}
		}
	}
	// Malformed tail: the stream's documents followed by bytes the source
	// format rejects. The translation fails; the documents in front of the
	// failure must still have been written before the reader was asked for data
	// two documents further on.
	for f in STREAM_FMTS {
		for _ in 0..(if thorough { 24 } else { 6 }) {
			let n = rng.range(4, 40) as usize;
			let scalar_free = rng.chance(1, 2);
			let s = gen_stream(rng, f, &StreamOpts { n, scalar_free, first_collection: true, big: 0, big_size: 0, plain: false });
			if s.ends.len() < 4 {
				continue;
			}
			let tail: &[u8] = match f {
				Fmt::Json => *rng.pick::<&[u8]>(&[b"\n{\"a\": tru", b"\n@", b"\n[1, 2", b" ]"]),
				Fmt::Msgpack => *rng.pick::<&[u8]>(&[b"\xc1", b"\x93\x01", b"\xda\x00\x10ab"]),
				_ => *rng.pick::<&[u8]>(&[b"---\n{a: [1, 2\n---\nb\n", b"---\n- a\n b: : [\n", b"---\n\"unterminated\n"]),
			};
			let mut data = (*s.data).clone();
			if f == Fmt::Json && data.last() == Some(&b'\n') {
				data.pop();
			}
			data.extend_from_slice(tail);
			let data = std::rc::Rc::new(data);
			let to = *rng.pick(&STREAM_FMTS);
			let Ok(outs) = out_ends(&s, to) else { continue };
			let kind = rng.below(8);
			let packets = packetisation(rng, &s, kind);
			let r = run_real(&data, &packets, Some(f), to);
			if r.result.is_ok() {
				out.count("malformed_tail.accepted_by_xt(not used)");
				continue;
			}
			// documents fully written before the failure
			let done = outs.iter().take_while(|o| **o <= r.written).count();
			out.count(&format!("malformed_tail.{}.documents_written_before_error.{}", f.name(), if done == s.ends.len() { "all" } else if done + 1 == s.ends.len() { "all-but-last" } else { "fewer" }));
			let bad = first_bad(2, 0, &s.ends, &outs, &r.trace);
			out.eval("lag_ok_before_error", &format!("{} {} {}", s.desc, to.name(), packets.describe()), true);
			if let Some(i) = bad {
				out.fail("lag_ok", "", format!("{} + malformed tail -> {} (explicit), source {}: {}; ends={} outEnds={}", s.desc, to.name(), packets.describe(), describe_ev(&r.trace, i), nats(&s.ends[..s.ends.len().min(12)]), nats(&outs[..outs.len().min(12)])));
			}
			if r.trace.len() <= MAX_EVENTS {
				out.case("lagok", &format!("0 {} {} {}", nats(&s.ends), nats(&outs), trace_field(&r.trace)), &verdict(bad), true);
			}
		}
	}
	// More small plain streams for the comparison with the loop model's trace.
	for f in STREAM_FMTS {
		for _ in 0..(if thorough { 40 } else { 8 }) {
			let n = rng.range(3, 20) as usize;
			let s = gen_stream(rng, f, &StreamOpts { n, scalar_free: true, first_collection: true, big: 0, big_size: 0, plain: true });
			if s.ends.len() < 3 || s.data.len() >= 8000 {
				out.count("skipped.shape_stream");
				continue;
			}
			let to = *rng.pick(&STREAM_FMTS);
			let Ok(outs) = out_ends(&s, to) else {
				out.count("skipped.single_document_does_not_translate");
				continue;
			};
			for kind in 0..8u64 {
				let packets = packetisation(rng, &s, kind);
				let model = f == Fmt::Yaml || matches!(kind, 0 | 1 | 2 | 7);
				one_run(out, &s, &outs, to, &packets, false, &Shape { model }, false);
			}
		}
	}
	if thorough {
		// Long streams of small documents: 10^4 and 10^5 documents.
		for f in STREAM_FMTS {
			for n in [10_000usize, 100_000] {
				let s = gen_stream(rng, f, &StreamOpts { n, scalar_free: false, first_collection: true, big: 0, big_size: 0, plain: false });
				let to = *rng.pick(&STREAM_FMTS);
				let Ok(outs) = out_ends(&s, to) else {
					out.count("skipped.single_document_does_not_translate");
					continue;
				};
				for packets in [Packets::Every(65536), Packets::At(s.ends.iter().step_by(50).copied().collect()), Packets::Every(8192)] {
					one_run(out, &s, &outs, to, &packets, false, &Shape { model: false }, false);
					if matches!(xtapi::detect(&s.data, &Supply::Reader(vec![])), Ok(Some(d)) if d == f) {
						one_run(out, &s, &outs, to, &packets, true, &Shape { model: false }, false);
					}
				}
			}
		}
	}
}

// --------------------------------------------------------------------------- memory

fn doc_of_size(f: Fmt, size: usize) -> Vec<u8> {
	// {"id": 1234567, "name": "xxxx…", "tags": [1, 2, 3]} in the three spellings
	let fill = "x".repeat(size.saturating_sub(40));
	match f {
		Fmt::Json => format!("{{\"id\": 1234567, \"name\": \"{fill}\", \"tags\": [1, 2, 3]}}\n").into_bytes(),
		Fmt::Yaml => format!("---\nid: 1234567\nname: \"{fill}\"\ntags: [1, 2, 3]\n").into_bytes(),
		_ => {
			let mut v = vec![0x83];
			v.extend_from_slice(&[0xa2, b'i', b'd', 0xce, 0x00, 0x12, 0xd6, 0x87]);
			v.extend_from_slice(&[0xa4, b'n', b'a', b'm', b'e', 0xdb]);
			v.extend_from_slice(&(fill.len() as u32).to_be_bytes());
			v.extend_from_slice(fill.as_bytes());
			v.extend_from_slice(&[0xa4, b't', b'a', b'g', b's', 0x93, 1, 2, 3]);
			v
		}
	}
}

/// Peak live heap above the level at the start, while translating `count`
/// copies of `doc`.
fn peak_of(doc: &[u8], count: usize, packet: usize, from: Option<Fmt>, to: Fmt) -> Result<(usize, usize), String> {
	let reader = RepeatReader::new(doc.to_vec(), count, packet);
	let mut writer = LogWriter::new(None);
	let base = alloc::reset_peak();
	let r = catch(|| xt::translate_reader(reader, from.map(Fmt::xt), to.xt(), &mut writer));
	let peak = alloc::peak();
	match r {
		Ok(Ok(())) => Ok((peak.saturating_sub(base), writer.total)),
		Ok(Err(e)) => Err(e.to_string()),
		Err(p) => Err(format!("PANIC: {p}")),
	}
}

/// Allowance for `peak(N2) - peak(N1)`: a constant plus twice the document size
/// (the capacity of the growable buffer that holds one document lies between
/// 1x and 2x the document depending on how the packets fall; a longer stream
/// visits more of those alignments). Independent of N.
fn allowance(doc_len: usize) -> usize {
	16 * 1024 + 2 * doc_len
}

fn memory_part(out: &mut Out, rng: &mut Rng, thorough: bool) {
	let sizes: &[usize] = if thorough { &[60, 700, 9_000, 120_000] } else { &[60, 9_000, 120_000] };
	for f in STREAM_FMTS {
		for &size in sizes {
			let doc = doc_of_size(f, size);
			// N1 is large enough for the stream to exceed every fixed-size buffer on
			// the way (BufReader 8 KiB, libyaml 16 KiB raw + 48 KiB decoded, the
			// capture buffer's read-ahead), so that peak(N1) already contains the
			// constant part: at least 100 documents (20 big ones) and 256 KiB.
			let n1 = (if size > 50_000 { 20 } else { 100 }).max(256 * 1024 / doc.len() + 1);
			let n2s: Vec<usize> = match (thorough, size) {
				(false, _) => vec![10 * n1],
				(true, s) if s > 50_000 => vec![10 * n1, 50 * n1],
				(true, s) if s > 5_000 => vec![10 * n1, 100 * n1],
				(true, _) => vec![10 * n1, 100 * n1, 100_000.max(200 * n1)],
			};
			for to in STREAM_FMTS {
				for detected in [false, true] {
					let from = if detected { None } else { Some(f) };
					let packet = *rng.pick(&[doc.len(), doc.len() * 3, 4096, 65536, 1000]);
					let what = format!("{} documents of {} bytes -> {} ({}), a packet every {} bytes", f.name(), doc.len(), to.name(), if detected { "detected" } else { "explicit" }, packet);
					let p1 = match peak_of(&doc, n1, packet, from, to) {
						Ok(p) => p,
						Err(e) => {
							out.fail("stream_translates", "", format!("{what}: N={n1}: {e}"));
							continue;
						}
					};
					for &n2 in &n2s {
						let p2 = match peak_of(&doc, n2, packet, from, to) {
							Ok(p) => p,
							Err(e) => {
								out.fail("stream_translates", "", format!("{what}: N={n2}: {e}"));
								continue;
							}
						};
						out.eval("peak_flat_in_n", &format!("{what} {n1} {n2}"), true);
						out.count(&format!("memory.{}.{}", f.name(), if detected { "detected" } else { "explicit" }));
						let growth = p2.0.saturating_sub(p1.0);
						for (n, p) in [(n1, p1.0), (n2, p2.0)] {
							out.counters.insert(format!("memory.peak_bytes.{}.{}.{}.doc{}.N{}", f.name(), if detected { "detected" } else { "explicit" }, to.name(), doc.len(), n), p as u64);
						}
						out.count(&format!("memory.growth.{}", match growth { 0 => "0", 1..=1024 => "1-1024", 1025..=16384 => "1025-16384", g if g <= allowance(doc.len()) => "16385-allowance", _ => "MORE" }));
						if size == sizes[sizes.len() - 1] || size == sizes[0] {
							out.sample(format!("peak heap: {what}: N={n1}: {} bytes, N={n2}: {} bytes ({} bytes written)", p1.0, p2.0, p2.1));
						}
						if p2.1 != p1.1 / n1 * n2 {
							out.fail("concat_of_singles", "", format!("{what}: {} bytes written for N={n1} but {} for N={n2}", p1.1, p2.1));
						}
						if growth > allowance(doc.len()) {
							out.fail(
								"peak_flat_in_n",
								"",
								format!("{what}: peak live heap {} bytes for N={n1} but {} bytes for N={n2} (allowance {})", p1.0, p2.0, allowance(doc.len())),
							);
						}
					}
				}
			}
		}
	}
}

// --------------------------------------------------------------------------- detection that selects nothing

/// A first document, then `body` repeated up to `total` bytes; `pos` is how
/// much xt consumed.
struct HeadThenRepeat {
	head: Vec<u8>,
	body: Vec<u8>,
	total: usize,
	pos: usize,
	packet: usize,
}

impl std::io::Read for HeadThenRepeat {
	fn read(&mut self, buf: &mut [u8]) -> std::io::Result<usize> {
		let lim = ((self.pos / self.packet + 1) * self.packet).min(self.total);
		let n = buf.len().min(lim - self.pos);
		for (i, b) in buf[..n].iter_mut().enumerate() {
			let at = self.pos + i;
			*b = if at < self.head.len() { self.head[at] } else { self.body[(at - self.head.len()) % self.body.len()] };
		}
		self.pos += n;
		Ok(n)
	}
}

/// Detection on a long reader stream whose first document no trial accepts (a
/// YAML scalar document closed by the next `---`): what xt consumes and holds
/// before it gives up must not depend on how long the stream is ("with or
/// without format detection"; the TOML trial reads a bounded prefix).
fn undetected_part(out: &mut Out, rng: &mut Rng, thorough: bool) {
	let heads: &[&str] = &["--- started\n", "--- 42\n", "--- \"just a string\"\n...\n", "# log follows\n--- null\n"];
	let body = b"---\nid: 1234567\nname: \"some name\"\ntags: [1, 2, 3]\n".to_vec();
	let lens: &[usize] = if thorough { &[3 << 20, 12 << 20, 96 << 20] } else { &[3 << 20, 24 << 20] };
	for head in heads {
		for to in STREAM_FMTS {
			let packet = *rng.pick(&[4096usize, 65536, 1000, 1 << 20]);
			let what = format!("detected stream starting {:?} then YAML mappings -> {}, a packet every {} bytes", head, to.name(), packet);
			let mut seen: Vec<(usize, usize, usize, String)> = Vec::new();
			for &total in lens {
				let mut reader = HeadThenRepeat { head: head.as_bytes().to_vec(), body: body.clone(), total, pos: 0, packet };
				let mut writer = LogWriter::new(None);
				let base = alloc::reset_peak();
				let r = catch(|| xt::translate_reader(&mut reader, None, to.xt(), &mut writer));
				let peak = alloc::peak().saturating_sub(base);
				let res = match r {
					Ok(Ok(())) => "ok".to_string(),
					Ok(Err(e)) => format!("error: {e}"),
					Err(p) => format!("PANIC: {p}"),
				};
				seen.push((total, reader.pos, peak, res));
			}
			out.eval("undetected_bounded", &what, true);
			out.count("memory.undetected");
			let (l1, c1, p1, r1) = seen[0].clone();
			out.sample(format!("{what}: {l1}-byte stream: consumed {c1}, peak heap {p1}, {r1}"));
			for (l, c, p, _) in &seen {
				out.counters.insert(format!("memory.undetected.consumed_bytes.{}.L{}", to.name(), l), *c as u64);
				out.counters.insert(format!("memory.undetected.peak_bytes.{}.L{}", to.name(), l), *p as u64);
			}
			for (l2, c2, p2, r2) in seen[1..].iter().cloned() {
				if r2 != r1 {
					out.fail("undetected_bounded", "", format!("{what}: result `{r1}` for a {l1}-byte stream but `{r2}` for a {l2}-byte stream"));
				} else if r1 != "ok" && (c2 > c1 + 128 * 1024 || p2 > p1 + allowance(body.len()) + 128 * 1024) {
					// the stream was given up on: nothing of it beyond a fixed prefix may have been read or kept
					out.fail(
						"undetected_bounded",
						"",
						format!("{what}: a {l1}-byte stream: {c1} bytes consumed, peak live heap {p1}; a {l2}-byte stream: {c2} bytes consumed, peak live heap {p2} ({r2})"),
					);
				} else if r1 == "ok" && p2 > p1 + allowance(body.len()) {
					out.fail("peak_flat_in_n", "", format!("{what}: peak live heap {p1} bytes for {l1} bytes of stream but {p2} for {l2}"));
				}
			}
		}
	}
}

// --------------------------------------------------------------------------- YAML streams in UTF-16 / UTF-32

/// The same YAML stream re-encoded (enc 1 = UTF-16LE, 2 = UTF-32LE, 3 = UTF-16BE,
/// 4 = UTF-32BE), with the document bounds moved to the new offsets.
fn reencode_stream(s: &Stream, enc: u8, bom: bool) -> Option<Stream> {
	let text = std::str::from_utf8(&s.data).ok()?;
	let unit = if enc == 1 || enc == 3 { 2 } else { 4 };
	// new offset of every UTF-8 offset that is a character boundary
	let mut map = vec![usize::MAX; text.len() + 1];
	let mut at = if bom { unit } else { 0 };
	for (o, c) in text.char_indices() {
		map[o] = at;
		at += if unit == 2 { 2 * c.len_utf16() } else { 4 };
	}
	map[text.len()] = at;
	let conv = |v: &Vec<usize>| -> Option<Vec<usize>> { v.iter().map(|o| map.get(*o).copied().filter(|n| *n != usize::MAX)).collect() };
	let data = crate::engines::encoding::encode_text(text, enc, bom);
	if data.len() != at {
		return None;
	}
	Some(Stream {
		fmt: s.fmt,
		data: std::rc::Rc::new(data),
		ends: conv(&s.ends)?,
		starts: conv(&s.starts)?,
		singles: s.singles.clone(),
		scalar_free: s.scalar_free,
		desc: format!("{} re-encoded as {}{}", s.desc, ["", "UTF-16LE", "UTF-32LE", "UTF-16BE", "UTF-32BE"][enc as usize], if bom { " with a BOM" } else { "" }),
	})
}

/// The statement of the property on YAML streams that are not in UTF-8.
/// xt's re-encoder fills the whole buffer libyaml hands it (16 KiB of UTF-8)
/// before it returns, so the lag is bounded in BYTES there, not in documents:
/// known finding K10. Anything worse than that bound is reported as such.
fn utf_part(out: &mut Out, rng: &mut Rng, thorough: bool) {
	for si in 0..(if thorough { 8 } else { 3 }) {
		let n = match si % 3 {
			0 => rng.range(300, 600),
			1 => rng.range(20, 60),
			_ => rng.range(1000, 3000),
		} as usize;
		let scalar_free = rng.chance(1, 2);
		let s8 = gen_stream(rng, Fmt::Yaml, &StreamOpts { n, scalar_free, first_collection: true, big: 0, big_size: 0, plain: si % 3 == 1 });
		if s8.ends.len() < 3 || !sorted(&s8.ends) {
			continue;
		}
		for enc in 1..=4u8 {
			let bom = rng.chance(1, 2);
			let Some(s) = reencode_stream(&s8, enc, bom) else {
				out.count("utf.skipped.not_reencodable");
				continue;
			};
			let unit = if enc == 1 || enc == 3 { 2 } else { 4 };
			let to = *rng.pick(&STREAM_FMTS);
			let Ok(outs) = out_ends(&s8, to) else { continue };
			for kind in [0u64, 1, 3, 5] {
				let packets = packetisation(rng, &s, kind);
				for detected in [false, true] {
					let from = if detected { None } else { Some(Fmt::Yaml) };
					let r = run_real(&s.data, &packets, from, to);
					let what = format!("{} -> {} ({}), source {}", s.desc, to.name(), if detected { "detected" } else { "explicit" }, packets.describe());
					if let Err(e) = &r.result {
						if detected {
							out.count("utf.detected.not_selected(K7 or scalar-first)");
						} else {
							out.fail("stream_translates", "", format!("{what}: translation fails: {e}"));
						}
						continue;
					}
					if Some(&r.written) != outs.last() {
						out.fail("concat_of_singles", "", format!("{what}: {} bytes written, the single-document translations add up to {:?}", r.written, outs.last()));
						continue;
					}
					out.eval("lag_ok_utf16_32", &what, true);
					out.count(&format!("utf.runs.enc{enc}.{}", if detected { "detected" } else { "explicit" }));
					// one buffer of re-encoded text + the BufReader in front of the source
					let la = unit * 16384 + 8192 + 16;
					let bad = first_bad(2, 0, &s.ends, &outs, &r.trace);
					let bad_la = first_bad(2, la, &s.ends, &outs, &r.trace);
					out.count(&format!("utf.lag.{}", if bad.is_none() { "within_k+2" } else if bad_la.is_none() { "within_one_buffer(K10)" } else { "MORE" }));
					if let Some(i) = bad {
						out.fail(
							"lag_ok",
							if bad_la.is_none() { "K10-yaml-utf16-32-encoder-fills-buffer" } else { "" },
							format!(
								"{what}: the reader is asked for data beyond document k+2 before document k is written: {}; ends={} outEnds={}{}",
								describe_ev(&r.trace, i),
								nats(&s.ends[..s.ends.len().min(12)]),
								nats(&outs[..outs.len().min(12)]),
								if bad_la.is_none() { String::new() } else { format!(" — and by more than one {la}-byte buffer of look-ahead") }
							),
						);
					}
				}
			}
		}
	}
}

pub fn run(out: &mut Out, rng: &mut Rng, thorough: bool) {
	lag_part(out, &mut rng.fork(), thorough);
	memory_part(out, &mut rng.fork(), thorough);
	undetected_part(out, &mut rng.fork(), thorough);
	utf_part(out, &mut rng.fork(), thorough);
}
