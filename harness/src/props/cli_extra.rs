//! Additional implementation-level statements on the real binary for the CLI
//! properties (added after seeded changes showed gaps): standard input that is
//! a regular file at a non-zero offset (C14), outputs that fill the 8 KiB
//! buffer exactly when the consumer is gone (C16), small outputs to a full
//! device (C13 / C16), help and version output under write errors (C16, K9).

use std::io::{Seek, SeekFrom};
use std::time::Duration;

use crate::out::Out;
use crate::procs::{self, Sink, Status};
use crate::util::{hex, Rng};
use crate::xtapi::{translate, Fmt, Supply, ALL_FMTS};

fn bins() -> Vec<(bool, String)> {
	[false, true].iter().filter_map(|&r| procs::bin(r).map(|b| (r, b))).collect()
}

/// C14: standard input is always read as a stream from where it stands — also
/// when it is a regular file (which xt must not memory-map from offset 0).
pub fn c14_stdin_at_offset(out: &mut Out, rng: &mut Rng, thorough: bool) {
	let dir = procs::scratch_dir("c14x");
	let payloads: Vec<(Fmt, Vec<u8>)> = vec![
		(Fmt::Json, b"{\"a\":1}\n[2,3]\n".to_vec()),
		(Fmt::Yaml, b"k: v\n---\n- 1\n".to_vec()),
		(Fmt::Toml, b"a = 1\n".to_vec()),
		(Fmt::Msgpack, b"\x81\xa1a\x01\x91\x02".to_vec()),
	];
	for (_, bin) in bins() {
		for (f, payload) in &payloads {
			for prefix in [&b""[..], b"HEADER LINE\n", b"{\"skipped\":true}\n", &[0x91, 0x07][..]] {
				for explicit in [true, false] {
					for dash in [false, true] {
						if !thorough && rng.chance(1, 3) {
							continue;
						}
						let to = *rng.pick(&ALL_FMTS);
						let path = format!("{dir}/framed");
						let mut all = prefix.to_vec();
						all.extend_from_slice(payload);
						std::fs::write(&path, &all).expect("write");
						let mut file = std::fs::File::open(&path).expect("open");
						file.seek(SeekFrom::Start(prefix.len() as u64)).expect("seek");
						let mut args = vec![format!("-t{}", to.letter())];
						if explicit {
							args.push(format!("-f{}", f.letter()));
						}
						if dash {
							args.push("-".to_string());
						}
						let r = procs::run_io(&bin, &args, Some(file), Sink::Pipe, Duration::from_secs(30));
						let lib = translate(payload, &Supply::Reader(vec![]), if explicit { Some(*f) } else { None }, to);
						out.eval("stdin_is_read_from_its_position", &format!("{}{}{}{explicit}{dash}{}", f.name(), to.name(), prefix.len(), hex(prefix)), lib.ok());
						let want = if lib.ok() { Status::Exit(0) } else { Status::Exit(1) };
						// On failure, part of the failing input's output may still
						// sit in xt's stdout buffer when it exits (C15 is about
						// EARLIER inputs): a prefix is all that is required.
						let stdout_ok = if lib.ok() { r.stdout == lib.output } else { lib.output.starts_with(&r.stdout) };
						if !stdout_ok || r.status != want {
							out.fail(
								"stdin_is_read_from_its_position",
								"",
								format!(
									"xt {} with standard input a regular file positioned at offset {} (skipping {:?}): stdout {} status {:?}; the library on the remaining bytes gives {} ({})",
									args.join(" "),
									prefix.len(),
									String::from_utf8_lossy(prefix),
									hex(&r.stdout),
									r.status,
									hex(&lib.output),
									if lib.ok() { "ok" } else { "error" }
								),
							);
						}
					}
				}
			}
		}
	}
	let _ = std::fs::remove_dir_all(&dir);
}

/// C16: the consumer is gone and the output fills xt's 8 KiB buffer exactly
/// (or leaves 1–12 bytes of room) when the byte that triggers the flush is
/// written — whichever `Write` method that byte goes through, xt must die of
/// SIGPIPE with nothing on stderr.
pub fn c16_buffer_boundary(out: &mut Out, thorough: bool) {
	let dir = procs::scratch_dir("c16x");
	let sizes: Vec<usize> = if thorough { (8150..=8210).collect() } else { (8176..=8196).collect() };
	for (_, bin) in bins() {
		for &n in &sizes {
			// One JSON string document whose compact form is n + 2 bytes, then a second document.
			let doc = format!("\"{}\"\n\"tail\"\n", "a".repeat(n));
			let path = format!("{dir}/b.json");
			std::fs::write(&path, &doc).expect("write");
			for to in [Fmt::Json, Fmt::Yaml, Fmt::Msgpack] {
				let args = vec![format!("-t{}", to.letter()), path.clone()];
				let r = procs::run_io(&bin, &args, None, Sink::ClosedPipe, Duration::from_secs(30));
				out.eval("consumer_gone_at_buffer_boundary", &format!("{n}{}", to.name()), true);
				if r.status != Status::Signal(13) || !r.stderr.is_empty() {
					out.fail(
						"consumer_gone_at_buffer_boundary",
						"",
						format!(
							"xt {} (one {}-character string document + one more) with the reader of stdout gone: wait status {:?}, stderr {:?} — expected death by SIGPIPE and empty stderr",
							args.join(" "),
							n,
							r.status,
							String::from_utf8_lossy(&r.stderr)
						),
					);
				}
			}
		}
	}
	let _ = std::fs::remove_dir_all(&dir);
}

/// C13 / C16: any other write failure ends the run with status 1 and a message
/// beginning `xt error` — also when the whole output is smaller than the buffer.
pub fn small_output_to_full_device(out: &mut Out, prop: &str) {
	let dir = procs::scratch_dir("devfull");
	let path = format!("{dir}/s.json");
	std::fs::write(&path, b"{\"a\":[1,2,3]}\n").expect("write");
	for (_, bin) in bins() {
		for to in ALL_FMTS {
			for via_stdin in [false, true] {
				let (args, stdin) = if via_stdin {
					(vec![format!("-t{}", to.letter()), "-fj".to_string()], Some(std::fs::File::open(&path).expect("open")))
				} else {
					(vec![format!("-t{}", to.letter()), path.clone()], None)
				};
				let r = procs::run_io(&bin, &args, stdin, Sink::DevFull, Duration::from_secs(30));
				out.eval("small_output_full_device", &format!("{prop}{}{via_stdin}", to.name()), true);
				if r.status != Status::Exit(1) || !r.stderr.starts_with(b"xt error") {
					out.fail(
						"small_output_full_device",
						"",
						format!(
							"xt {} > /dev/full: wait status {:?}, stderr {:?} — expected status 1 and a message beginning `xt error`",
							args.join(" "),
							r.status,
							String::from_utf8_lossy(&r.stderr)
						),
					);
				}
			}
		}
	}
	let _ = std::fs::remove_dir_all(&dir);
}

/// C16 (known finding K9): help and version output ignore write errors.
pub fn c16_help_write_errors(out: &mut Out) {
	for (_, bin) in bins() {
		for flag in ["-h", "--help", "-V", "--version"] {
			let r = procs::run_io(&bin, &[flag.to_string()], None, Sink::DevFull, Duration::from_secs(30));
			out.eval("help_version_full_device", flag, true);
			if r.status != Status::Exit(1) {
				out.fail(
					"help_version_full_device",
					if r.status == Status::Exit(0) && r.stderr.is_empty() { "K9-help-ignores-write-errors" } else { "" },
					format!("xt {flag} > /dev/full: wait status {:?}, stderr {:?} — expected status 1 and a message", r.status, String::from_utf8_lossy(&r.stderr)),
				);
			}
			let r = procs::run_io(&bin, &[flag.to_string()], None, Sink::ClosedPipe, Duration::from_secs(30));
			out.eval("help_version_consumer_gone", flag, true);
			if r.status != Status::Signal(13) {
				out.fail(
					"help_version_consumer_gone",
					if r.status == Status::Exit(0) && r.stderr.is_empty() { "K9-help-ignores-write-errors" } else { "" },
					format!("xt {flag} with the reader of stdout gone: wait status {:?}, stderr {:?} — expected death by SIGPIPE", r.status, String::from_utf8_lossy(&r.stderr)),
				);
			}
		}
	}
}

/// C13: a repeated `-t` or `-f` is an invalid command line whatever the two
/// values are and however they are attached: exit 2, usage on stderr, nothing
/// on stdout, nothing translated.
pub fn c13_repeated_options(out: &mut Out) {
	let dir = procs::scratch_dir("c13x");
	let path = format!("{dir}/in.json");
	std::fs::write(&path, b"{\"a\":1}\n").expect("write");
	let names = ["j", "json", "m", "msgpack", "t", "toml", "y", "yaml"];
	let form = |opt: &str, name: &str, k: usize| -> Vec<String> {
		match k {
			0 => vec![format!("-{opt}"), name.to_string()],
			1 => vec![format!("-{opt}{name}")],
			_ => vec![format!("-{opt}={name}")],
		}
	};
	for (_, bin) in bins().into_iter().take(1) {
		for opt in ["t", "f"] {
			for a in names {
				for b in names {
					for k in 0..3 {
						let mut args = form(opt, a, k);
						args.extend(form(opt, b, (k + 1) % 3));
						args.push(path.clone());
						let r = procs::run_io(&bin, &args, None, Sink::Pipe, Duration::from_secs(30));
						out.eval("repeated_option_is_usage_error", &args.join(" "), true);
						let stderr = String::from_utf8_lossy(&r.stderr).to_string();
						if r.status != Status::Exit(2) || !r.stdout.is_empty() || !stderr.starts_with("xt error") || !stderr.contains("Usage:") {
							out.fail(
								"repeated_option_is_usage_error",
								"",
								format!("xt {}: wait status {:?}, stdout {}, stderr {:?} — expected status 2, empty stdout, `xt error` + usage on stderr", args.join(" "), r.status, hex(&r.stdout), stderr),
							);
						}
					}
				}
			}
		}
	}
	let _ = std::fs::remove_dir_all(&dir);
}

/// C13: an operand that cannot be read (a directory: `open` succeeds, mapping
/// fails, every `read` fails) is "any other failure" — exit 1, a message
/// naming the operand, nothing on stdout — whichever source format is named.
pub fn c13_unreadable_operand(out: &mut Out) {
	let dir = procs::scratch_dir("c13d");
	let sub = format!("{dir}/adir");
	let _ = std::fs::create_dir_all(&sub);
	let named = format!("{dir}/dir.msgpack");
	let _ = std::fs::create_dir_all(&named);
	let good = format!("{dir}/good.json");
	std::fs::write(&good, b"[1]\n").expect("write");
	for (_, bin) in bins() {
		let mut cases: Vec<Vec<String>> = vec![vec![sub.clone()], vec![named.clone()], vec![good.clone(), named.clone()]];
		for f in ["j", "json", "m", "msgpack", "t", "toml", "y", "yaml"] {
			cases.push(vec![format!("-f{f}"), sub.clone()]);
			cases.push(vec!["-f".into(), f.to_string(), "-tm".into(), sub.clone()]);
		}
		for args in cases {
			let r = procs::run_io(&bin, &args, None, Sink::Pipe, Duration::from_secs(30));
			out.eval("unreadable_operand_exit_1", &args.join(" "), true);
			let stderr = String::from_utf8_lossy(&r.stderr).to_string();
			let first_ok = args.contains(&good);
			if r.status != Status::Exit(1) || !stderr.starts_with("xt error in ") || (!first_ok && !r.stdout.is_empty()) {
				out.fail(
					"unreadable_operand_exit_1",
					"",
					format!("xt {} (operand is a directory): wait status {:?}, stdout {}, stderr {:?} — expected status 1 and `xt error in <operand>: …`", args.join(" "), r.status, hex(&r.stdout), stderr),
				);
			}
		}
	}
	let _ = std::fs::remove_dir_all(&dir);
}

/// C14: a regular file that cannot be memory-mapped (procfs files report size
/// 0 and refuse mmap) is read through a reader instead; the output equals the
/// library's for the file's bytes.
pub fn c14_unmappable_regular_file(out: &mut Out) {
	for path in ["/proc/sys/kernel/ostype", "/proc/sys/kernel/osrelease", "/proc/self/status", "/proc/version"] {
		let Ok(bytes) = std::fs::read(path) else { continue };
		for (_, bin) in bins() {
			for (from, to) in [(Fmt::Yaml, Fmt::Json), (Fmt::Yaml, Fmt::Msgpack), (Fmt::Toml, Fmt::Json)] {
				let args = vec![format!("-f{}", from.letter()), format!("-t{}", to.letter()), path.to_string()];
				let r = procs::run_io(&bin, &args, None, Sink::Pipe, Duration::from_secs(30));
				// /proc/self/status differs per process; compare verdicts only there.
				let lib = translate(&bytes, &Supply::Reader(vec![]), Some(from), to);
				out.eval("unmappable_file_falls_back_to_reader", &format!("{path}{}{}", from.name(), to.name()), lib.ok());
				let same_bytes = path != "/proc/self/status";
				let want = if lib.ok() { Status::Exit(0) } else { Status::Exit(1) };
				let stderr = String::from_utf8_lossy(&r.stderr).to_string();
				let mapping_error = stderr.contains("No such device") || stderr.contains("Cannot allocate");
				if r.status != want || mapping_error || (same_bytes && lib.ok() && r.stdout != lib.output) {
					out.fail(
						"unmappable_file_falls_back_to_reader",
						"",
						format!("xt {}: wait status {:?}, stdout {}, stderr {:?}; the library on the file's bytes gives {}", args.join(" "), r.status, hex(&r.stdout), stderr, lib.describe()),
					);
				}
			}
		}
	}
}

/// C15: status 0 means every byte was written — also when standard output is
/// a NON-BLOCKING pipe that is full (the consumer is stalled, not gone): xt
/// must not report success while output is missing.
pub fn c15_nonblocking_full_pipe(out: &mut Out) {
	use std::io::Read;
	use std::os::unix::io::FromRawFd;
	use std::process::{Command, Stdio};
	let dir = procs::scratch_dir("c15n");
	let path = format!("{dir}/big.json");
	// ~300 KiB of output: several pipe capacities.
	let doc = format!("[{}]\n", (0..40_000).map(|i| i.to_string()).collect::<Vec<_>>().join(","));
	std::fs::write(&path, &doc).expect("write");
	let small = format!("{dir}/small.json");
	std::fs::write(&small, b"[1,2,3]\n").expect("write");
	for (_, bin) in bins() {
		for args in [vec!["-tj".to_string(), path.clone()], vec!["-ty".to_string(), small.clone(), path.clone()]] {
			let mut fds = [0 as libc::c_int; 2];
			// SAFETY: plain libc calls; both descriptors are owned here and
			// handed to `File` / `Stdio`, which close them.
			let (read_end, write_end) = unsafe {
				if libc::pipe(fds.as_mut_ptr()) != 0 {
					continue;
				}
				let fl = libc::fcntl(fds[1], libc::F_GETFL);
				libc::fcntl(fds[1], libc::F_SETFL, fl | libc::O_NONBLOCK);
				(std::fs::File::from_raw_fd(fds[0]), Stdio::from_raw_fd(fds[1]))
			};
			let child = Command::new(&bin).args(&args).stdin(Stdio::null()).stdout(write_end).stderr(Stdio::piped()).spawn();
			let Ok(child) = child else { continue };
			// The consumer is stalled: nothing is read until xt has exited.
			let outp = child.wait_with_output();
			let Ok(outp) = outp else { continue };
			let mut got = vec![];
			let mut read_end = read_end;
			let _ = read_end.read_to_end(&mut got);
			let expected: Vec<u8> = args[1..].iter().flat_map(|f| {
				let b = std::fs::read(f).unwrap_or_default();
				translate(&b, &Supply::Slice, Some(Fmt::Json), Fmt::from_name(&args[0][2..]).unwrap_or(Fmt::Json)).output
			}).collect();
			out.eval("status_0_means_all_written_nonblocking", &args.join(" "), true);
			let code = outp.status.code();
			if code == Some(0) && got != expected {
				out.fail(
					"status_0_means_all_written_nonblocking",
					"",
					format!("xt {} with standard output a full non-blocking pipe: exit 0 but only {} of {} bytes were written", args.join(" "), got.len(), expected.len()),
				);
			}
		}
	}
	// The pipe is ALREADY full when xt starts (a stalled consumer that another
	// producer filled), and xt's whole output fits its own buffer: the only
	// write xt attempts is a flush, after an input or at exit.
	let missing = format!("{dir}/missing.json");
	let bad = format!("{dir}/bad.json");
	std::fs::write(&bad, b"[1, 2,\n").expect("write");
	let small2 = format!("{dir}/small2.json");
	std::fs::write(&small2, b"{\"a\": [true, null]}\n").expect("write");
	for (_, bin) in bins() {
		for args in [
			vec!["-tj".to_string(), small.clone()],
			vec!["-ty".to_string(), small.clone(), small2.clone()],
			vec!["-tj".to_string(), small.clone(), missing.clone()],
			vec!["-ty".to_string(), small.clone(), bad.clone()],
			vec!["-tm".to_string(), small.clone(), small2.clone(), missing.clone()],
		] {
			let mut fds = [0 as libc::c_int; 2];
			let mut prefill = 0usize;
			// SAFETY: plain libc calls; both descriptors are owned here and
			// handed to `File` / `Stdio`, which close them.
			let (read_end, write_end) = unsafe {
				if libc::pipe(fds.as_mut_ptr()) != 0 {
					continue;
				}
				let fl = libc::fcntl(fds[1], libc::F_GETFL);
				libc::fcntl(fds[1], libc::F_SETFL, fl | libc::O_NONBLOCK);
				let block = [b'#'; 4096];
				loop {
					let n = libc::write(fds[1], block.as_ptr() as *const libc::c_void, block.len());
					if n <= 0 {
						break;
					}
					prefill += n as usize;
				}
				let one = [b'#'; 1];
				while libc::write(fds[1], one.as_ptr() as *const libc::c_void, 1) == 1 {
					prefill += 1;
				}
				(std::fs::File::from_raw_fd(fds[0]), Stdio::from_raw_fd(fds[1]))
			};
			let child = Command::new(&bin).args(&args).stdin(Stdio::null()).stdout(write_end).stderr(Stdio::piped()).spawn();
			let Ok(child) = child else { continue };
			let outp = child.wait_with_output();
			let Ok(outp) = outp else { continue };
			let mut got = vec![];
			let mut read_end = read_end;
			let _ = read_end.read_to_end(&mut got);
			let got = got[prefill.min(got.len())..].to_vec();
			let to = Fmt::from_name(&args[0][2..]).unwrap_or(Fmt::Json);
			let good: Vec<&String> = args[1..].iter().filter(|f| **f != missing && **f != bad).collect();
			let expected = crate::xtapi::translate_many(&good.iter().map(|f| (std::fs::read(f).unwrap_or_default(), Supply::Slice, Some(Fmt::Json))).collect::<Vec<_>>(), to).1;
			let stderr = String::from_utf8_lossy(&outp.stderr).into_owned();
			let key = format!("prefilled {}", args.join(" "));
			out.eval("status_0_means_all_written_nonblocking", &key, true);
			let code = outp.status.code();
			if code == Some(0) && got != expected {
				out.fail(
					"status_0_means_all_written_nonblocking",
					"",
					format!("xt {} with standard output a non-blocking pipe that is full from the start ({} bytes queued, consumer stalled): exit 0 but only {} of {} bytes of output were written", args.join(" "), prefill, got.len(), expected.len()),
				);
			}
			let blames_later = [&missing, &bad].iter().any(|f| args.contains(f) && stderr.contains(f.as_str()));
			if blames_later {
				out.eval("earlier_output_survives_nonblocking", &key, true);
				if got != expected {
					out.fail(
						"earlier_output_survives_nonblocking",
						"",
						format!("xt {} with standard output a full non-blocking pipe: exit {:?} blaming the later input ({:?}) but only {} of the {} bytes that translate the finished inputs were written", args.join(" "), code, stderr.trim_end(), got.len(), expected.len()),
					);
				}
			}
		}
	}
	let _ = std::fs::remove_dir_all(&dir);
}

/// Runs the binary with raw (possibly non-UTF-8) arguments in `dir`; stdin is
/// /dev/null or the given bytes.  Returns (exit code or None for a signal,
/// stdout, stderr).
fn run_os(bin: &str, dir: &str, args: &[std::ffi::OsString], stdin: Option<&[u8]>) -> Option<(Option<i32>, Vec<u8>, Vec<u8>)> {
	use std::io::Write;
	use std::process::{Command, Stdio};
	let mut child = Command::new(bin)
		.args(args)
		.current_dir(dir)
		.stdin(if stdin.is_some() { Stdio::piped() } else { Stdio::null() })
		.stdout(Stdio::piped())
		.stderr(Stdio::piped())
		.spawn()
		.ok()?;
	if let Some(bytes) = stdin {
		let mut si = child.stdin.take()?;
		let _ = si.write_all(bytes);
	}
	let o = child.wait_with_output().ok()?;
	Some((o.status.code(), o.stdout, o.stderr))
}

/// C13: arguments are byte strings, not text. A file operand whose name is not
/// UTF-8 is an input like any other; a `-f` / `-t` value that is not UTF-8 is an
/// invalid name (status 2 + usage); nothing of the kind may end the process
/// with anything but 0, 1 or 2.
pub fn c13_non_utf8_arguments(out: &mut Out) {
	use std::ffi::OsString;
	use std::os::unix::ffi::OsStringExt;
	let dir = procs::scratch_dir("c13u");
	let os = |b: &[u8]| OsString::from_vec(b.to_vec());
	let good_name: &[u8] = b"caf\xe9.json"; // Latin-1, not UTF-8
	let good_plain: &[u8] = b"\xff\xfe";
	let missing: &[u8] = b"missing-\xff.json";
	let ok_a = std::fs::write(std::path::Path::new(&dir).join(os(good_name)), b"{\"a\": [1, 2]}\n").is_ok();
	let ok_b = std::fs::write(std::path::Path::new(&dir).join(os(good_plain)), b"[true]\n").is_ok();
	let _ = std::fs::write(format!("{dir}/plain.json"), b"[0]\n");
	if !(ok_a && ok_b) {
		out.count("non_utf8_args.filesystem_refuses_such_names");
		let _ = std::fs::remove_dir_all(&dir);
		return;
	}
	// names whose STEM is not UTF-8 but whose extension is: the extension still
	// decides the format (content chosen so that detection alone would differ)
	let ext_yaml: &[u8] = b"caf\xe9.yaml";
	let ext_yml_upper: &[u8] = b"\xff.YmL";
	let ext_toml: &[u8] = b"r\xe9sum\xe9.v2.toml";
	let ext_json: &[u8] = b"\xff\xfe.json";
	let _ = std::fs::write(std::path::Path::new(&dir).join(os(ext_yaml)), b"hello world\n");
	let _ = std::fs::write(std::path::Path::new(&dir).join(os(ext_yml_upper)), b"a = 1\n");
	let _ = std::fs::write(std::path::Path::new(&dir).join(os(ext_toml)), b"[1]\nk = 2\n");
	let _ = std::fs::write(std::path::Path::new(&dir).join(os(ext_json)), b"k: v\n");
	// (arguments, expected status, expected stdout if 0, bytes stderr must contain)
	let cases: Vec<(Vec<&[u8]>, i32, &[u8], &[u8])> = vec![
		(vec![b"-tj", ext_yaml], 0, b"\"hello world\"\n", b""),
		(vec![b"-tj", ext_yml_upper], 0, b"\"a = 1\"\n", b""),
		(vec![b"-tj", ext_toml], 0, b"{\"1\":{\"k\":2}}\n", b""),
		(vec![b"-tj", ext_json], 1, b"", b"xt error in "),
		(vec![b"-tj", good_name], 0, b"{\"a\":[1,2]}\n", b""),
		(vec![b"-tj", b"--", good_name], 0, b"{\"a\":[1,2]}\n", b""),
		(vec![b"-tj", b"plain.json", good_name], 0, b"[0]\n{\"a\":[1,2]}\n", b""),
		(vec![b"-tj", b"-fj", good_plain], 0, b"[true]\n", b""),
		(vec![b"-tj", good_plain], 0, b"[true]\n", b""),
		(vec![b"-tj", missing], 1, b"", b"xt error in missing-"),
		(vec![b"-tj", b"plain.json", missing], 1, b"[0]\n", b"xt error in missing-"),
		(vec![b"-f", b"js\xffn", b"plain.json"], 2, b"", b"Usage:"),
		(vec![b"-fj\xff", b"plain.json"], 2, b"", b"Usage:"),
		(vec![b"-t", b"\xff", b"plain.json"], 2, b"", b"Usage:"),
		(vec![b"-t=\xe9", b"plain.json"], 2, b"", b"Usage:"),
		(vec![b"--\xff", b"plain.json"], 2, b"", b"Usage:"),
		// an option-like argument that is not UTF-8, AFTER an operand
		(vec![b"plain.json", b"-\xff"], 2, b"", b"Usage:"),
		(vec![b"-tj", b"plain.json", b"--\xff\xfe"], 2, b"", b"Usage:"),
		(vec![b"-tj", b"plain.json", b"plain.json", b"-x\xff"], 2, b"", b"Usage:"),
		(vec![b"plain.json", b"-\xe9t"], 2, b"", b"Usage:"),
		// format names are exactly the documented ones
		(vec![b"-f", b"=json", b"plain.json"], 2, b"", b"Usage:"),
		(vec![b"-f==json", b"plain.json"], 2, b"", b"Usage:"),
		(vec![b"-t==toml", b"plain.json"], 2, b"", b"Usage:"),
		(vec![b"-t", b"=j", b"plain.json"], 2, b"", b"Usage:"),
		(vec![b"-f", b" json", b"plain.json"], 2, b"", b"Usage:"),
		(vec![b"-f", b"json ", b"plain.json"], 2, b"", b"Usage:"),
		(vec![b"-f", b"JSON", b"plain.json"], 2, b"", b"Usage:"),
		(vec![b"-f=json", b"plain.json"], 0, b"[0]\n", b""),
		(vec![b"-fjson", b"plain.json"], 0, b"[0]\n", b""),
	];
	for (_, bin) in bins() {
		for (args, want, stdout, needle) in &cases {
			let argv: Vec<OsString> = args.iter().map(|a| os(a)).collect();
			let Some((code, so, se)) = run_os(&bin, &dir, &argv, None) else { continue };
			let shown = args.iter().map(|a| String::from_utf8_lossy(a).into_owned()).collect::<Vec<_>>().join(" ");
			out.eval("non_utf8_arguments", &shown, true);
			let stderr = String::from_utf8_lossy(&se).into_owned();
			let ok = code == Some(*want)
				&& (*want != 0 || (so == *stdout && se.is_empty()))
				&& (*want == 0 || (stderr.starts_with("xt error") && se.windows(needle.len().max(1)).any(|w| w == *needle)))
				&& (*want != 2 || so.is_empty())
				&& (*want != 1 || so == *stdout);
			if !ok {
				out.fail(
					"non_utf8_arguments",
					"",
					format!(
						"xt {} (arguments as bytes: {}): exit {:?}, stdout {}, stderr {:?} — expected exit {} {}",
						shown,
						args.iter().map(|a| hex(a)).collect::<Vec<_>>().join(" "),
						code,
						hex(&so),
						stderr,
						want,
						match want {
							0 => "with the translation on stdout and an empty stderr",
							1 => "with `xt error in <that input>` on stderr",
							_ => "with `xt error` + usage on stderr and nothing on stdout",
						}
					),
				);
			}
		}
	}
	let _ = std::fs::remove_dir_all(&dir);
}

/// C13 / C03 / C14: an input is whatever the path delivers when read — a named
/// pipe, /dev/stdin, a procfs file (all report size 0) are read to their end
/// like a regular file. Compared with the library on the same bytes.
pub fn special_file_inputs(out: &mut Out) {
	use std::ffi::OsString;
	let dir = procs::scratch_dir("c13s");
	let _ = std::fs::write(format!("{dir}/reg.json"), b"{\"r\": 1}\n");
	let _ = std::fs::write(format!("{dir}/empty.json"), b"");
	let ostype = std::fs::read("/proc/sys/kernel/ostype").unwrap_or_default();
	// (what the special input delivers, its explicit format if any)
	let contents: Vec<(&str, Vec<u8>, Option<Fmt>)> = vec![
		("good json", b"[1, {\"k\": null}]\n{\"second\": true}\n".to_vec(), None),
		("malformed json", b"{\"a\": [1, 2,\n".to_vec(), Some(Fmt::Json)),
		("good yaml", b"k: v\n---\n- 1\n".to_vec(), Some(Fmt::Yaml)),
		("undetectable", b"just some words\n".to_vec(), None),
	];
	let mkfifo = |p: &str| -> bool {
		let Ok(c) = std::ffi::CString::new(p) else { return false };
		// SAFETY: plain libc call with a valid NUL-terminated path.
		unsafe { libc::mkfifo(c.as_ptr(), 0o600) == 0 }
	};
	for (_, bin) in bins() {
		for to in [Fmt::Json, Fmt::Yaml, Fmt::Msgpack] {
			for (what, bytes, from) in &contents {
				for (kind, before, after) in [("fifo", false, false), ("fifo", true, false), ("fifo", false, true), ("devstdin", false, false), ("devstdin", true, true)] {
					let fifo = format!("{dir}/pipe-{}", kind);
					let _ = std::fs::remove_file(&fifo);
					let mut args: Vec<OsString> = vec![format!("-t{}", to.letter()).into()];
					if let Some(f) = from {
						args.push(format!("-f{}", f.letter()).into());
					}
					// with an explicit -f every operand is read as that format: keep the
					// regular files out of those runs unless they are JSON too
					let reg_ok = from.is_none() || *from == Some(Fmt::Json);
					let mut expected_inputs: Vec<(Vec<u8>, Supply, Option<Fmt>)> = vec![];
					if before && reg_ok {
						args.push("reg.json".into());
						expected_inputs.push((b"{\"r\": 1}\n".to_vec(), Supply::Slice, *from));
					}
					let special = if kind == "fifo" { fifo.clone() } else { "/dev/stdin".to_string() };
					args.push(special.clone().into());
					expected_inputs.push((bytes.clone(), Supply::Reader(vec![]), *from));
					if after && reg_ok {
						args.push("reg.json".into());
						expected_inputs.push((b"{\"r\": 1}\n".to_vec(), Supply::Slice, *from));
					}
					let (results, lib_out) = crate::xtapi::translate_many(&expected_inputs, to);
					let lib_ok = results.iter().all(|r| r.is_ok());
					let run = if kind == "fifo" {
						if !mkfifo(&fifo) {
							out.count("special_inputs.mkfifo_failed");
							continue;
						}
						let payload = bytes.clone();
						let path = fifo.clone();
						// the writer opens the pipe (blocks until xt opens it for reading), writes, closes
						let feeder = std::thread::spawn(move || {
							use std::io::Write;
							if let Ok(mut f) = std::fs::OpenOptions::new().write(true).open(&path) {
								let _ = f.write_all(&payload);
							}
						});
						// a watchdog: should the binary never open the pipe, open it
						// ourselves after a while so that the feeder is released
						let r = {
							let path2 = fifo.clone();
							let (tx, rx) = std::sync::mpsc::channel::<()>();
							let guard = std::thread::spawn(move || {
								if rx.recv_timeout(Duration::from_secs(3)).is_err() {
									// SAFETY: plain libc open of a path; the descriptor is closed right away.
									unsafe {
										if let Ok(c) = std::ffi::CString::new(path2) {
											let fd = libc::open(c.as_ptr(), libc::O_RDONLY | libc::O_NONBLOCK);
											if fd >= 0 {
												std::thread::sleep(Duration::from_millis(200));
												libc::close(fd);
											}
										}
									}
								}
							});
							let r = run_os(&bin, &dir, &args, None);
							let _ = tx.send(());
							let _ = guard.join();
							r
						};
						let _ = feeder.join();
						r
					} else {
						run_os(&bin, &dir, &args, Some(bytes))
					};
					let Some((code, so, se)) = run else { continue };
					let shown = args.iter().map(|a| a.to_string_lossy().into_owned()).collect::<Vec<_>>().join(" ");
					let key = format!("{shown} [{kind} delivers {what}]");
					out.eval("special_file_inputs", &key, lib_ok);
					let stderr = String::from_utf8_lossy(&se).into_owned();
					let ok = if lib_ok {
						code == Some(0) && so == lib_out && se.is_empty()
					} else {
						code == Some(1) && stderr.starts_with("xt error in ") && lib_out.starts_with(&so)
					};
					if !ok {
						out.fail(
							"special_file_inputs",
							"",
							format!(
								"xt {key}: exit {:?}, stdout {}, stderr {:?}; the library on the same inputs gives {} with output {}",
								code,
								hex(&so),
								stderr,
								if lib_ok { "success".to_string() } else { format!("{:?}", results.iter().find(|r| r.is_err())) },
								hex(&lib_out)
							),
						);
					}
				}
			}
			// a procfs file: size 0 for stat, content when read
			if !ostype.is_empty() {
				let args: Vec<OsString> = vec![format!("-t{}", to.letter()).into(), "-fy".into(), "/proc/sys/kernel/ostype".into()];
				let lib = translate(&ostype, &Supply::Reader(vec![]), Some(Fmt::Yaml), to);
				if let Some((code, so, se)) = run_os(&bin, &dir, &args, None) {
					out.eval("special_file_inputs", &format!("procfs {}", to.name()), lib.ok());
					if lib.ok() && !(code == Some(0) && so == lib.output && se.is_empty()) {
						out.fail("special_file_inputs", "", format!("xt -t{} -fy /proc/sys/kernel/ostype: exit {:?}, stdout {}, stderr {:?}; the library on what the file delivers ({}) writes {}", to.letter(), code, hex(&so), String::from_utf8_lossy(&se), hex(&ostype), hex(&lib.output)));
					}
				}
			}
			// symbolic links to regular files (the link's own size is the length of
			// its target PATH, not of the file): relative, absolute, and a link to a link
			{
				let body = b"{\"long\": [1, 2, 3, 4, 5, 6, 7, 8, 9, 10], \"tail\": \"zzzzzzzzzzzzzzzzzzzzzzzzzzzzzzzzzzzzzzzzzzzzzzzz\"}\n[\"second document\"]\n";
				let _ = std::fs::write(format!("{dir}/t.json"), body);
				let _ = std::fs::remove_file(format!("{dir}/rel.json"));
				let _ = std::fs::remove_file(format!("{dir}/abs.json"));
				let _ = std::fs::remove_file(format!("{dir}/hop"));
				let _ = std::os::unix::fs::symlink("t.json", format!("{dir}/rel.json"));
				let _ = std::os::unix::fs::symlink(format!("{dir}/t.json"), format!("{dir}/abs.json"));
				let _ = std::os::unix::fs::symlink("rel.json", format!("{dir}/hop"));
				let lib = translate(body, &Supply::Slice, Some(Fmt::Json), to);
				for (name, explicit) in [("rel.json", false), ("abs.json", false), ("hop", true), ("hop", false), ("rel.json", true)] {
					let mut args: Vec<OsString> = vec![format!("-t{}", to.letter()).into()];
					if explicit {
						args.push("-fj".into());
					}
					args.push(name.into());
					if let Some((code, so, se)) = run_os(&bin, &dir, &args, None) {
						out.eval("special_file_inputs", &format!("symlink {name} {explicit} {}", to.name()), lib.ok());
						if lib.ok() && !(code == Some(0) && so == lib.output && se.is_empty()) {
							out.fail(
								"special_file_inputs",
								"",
								format!("xt -t{}{} {name} (a symbolic link to a {}-byte JSON file): exit {:?}, stdout {}, stderr {:?}; the library on the file's bytes writes {}", to.letter(), if explicit { " -fj" } else { "" }, body.len(), code, hex(&so), String::from_utf8_lossy(&se), hex(&lib.output)),
							);
						}
					}
				}
			}
			// a truly empty regular file stays what it is for every explicit format
			for f in [Fmt::Json, Fmt::Yaml, Fmt::Msgpack, Fmt::Toml] {
				let args: Vec<OsString> = vec![format!("-t{}", to.letter()).into(), format!("-f{}", f.letter()).into(), "empty.json".into()];
				let lib = translate(b"", &Supply::Slice, Some(f), to);
				if let Some((code, so, _)) = run_os(&bin, &dir, &args, None) {
					out.eval("special_file_inputs", &format!("empty {} {}", f.name(), to.name()), true);
					if (lib.ok() && !(code == Some(0) && so == lib.output)) || (!lib.ok() && code != Some(1)) {
						out.fail("special_file_inputs", "", format!("xt -t{} -f{} on an empty regular file: exit {:?}, stdout {}; the library gives {}", to.letter(), f.letter(), code, hex(&so), lib.describe()));
					}
				}
			}
		}
	}
	let _ = std::fs::remove_dir_all(&dir);
}

/// C16: the reader of standard output is gone before xt writes — whatever route
/// the input takes (a file operand, `-`, or no operand at all = standard input)
/// and however small the output, xt dies of SIGPIPE without a message.
pub fn c16_consumer_gone_routes(out: &mut Out) {
	let dir = procs::scratch_dir("c16r");
	let small = format!("{dir}/small.json");
	std::fs::write(&small, b"{\"a\": [1, 2, 3]}\n").expect("write");
	let big = format!("{dir}/big.json");
	std::fs::write(&big, format!("{{\"rows\": [{}]}}\n", (0..30_000).map(|i| i.to_string()).collect::<Vec<_>>().join(", "))).expect("write");
	std::fs::write(format!("{dir}/bad.json"), b"{\"a\": [1, 2,\n").expect("write");
	for (_, bin) in bins() {
		for to in ALL_FMTS {
			for path in [&small, &big] {
				for route in ["operand", "dash", "implicit-stdin", "implicit-stdin-detect", "operand-then-missing", "operand-then-malformed", "two-operands-then-missing"] {
					if to == Fmt::Toml && route.starts_with("two-") {
						continue;
					}
					let mut args = vec![format!("-t{}", to.letter())];
					let stdin = match route {
						"operand" => {
							args.push(path.clone());
							None
						}
						"operand-then-missing" => {
							args.push(path.clone());
							args.push(format!("{dir}/missing.json"));
							None
						}
						"operand-then-malformed" => {
							args.push(path.clone());
							args.push(format!("{dir}/bad.json"));
							None
						}
						"two-operands-then-missing" => {
							args.push(path.clone());
							args.push(small.clone());
							args.push(format!("{dir}/missing.json"));
							None
						}
						"dash" => {
							args.push("-fj".into());
							args.push("-".into());
							Some(std::fs::File::open(path).expect("open"))
						}
						"implicit-stdin" => {
							args.push("-fj".into());
							Some(std::fs::File::open(path).expect("open"))
						}
						_ => Some(std::fs::File::open(path).expect("open")),
					};
					let r = procs::run_io(&bin, &args, stdin, Sink::ClosedPipe, Duration::from_secs(30));
					out.eval("consumer_gone_every_route", &format!("{}{route}{}", to.name(), path.len()), true);
					if r.status != Status::Signal(13) || !r.stderr.is_empty() {
						out.fail(
							"consumer_gone_every_route",
							"",
							format!(
								"xt {} (input by {route}, {} bytes of JSON) with the reader of stdout gone: wait status {:?}, stderr {:?} — expected death by SIGPIPE and empty stderr",
								args.join(" "),
								std::fs::metadata(path).map(|m| m.len()).unwrap_or(0),
								r.status,
								String::from_utf8_lossy(&r.stderr)
							),
						);
					}
				}
			}
		}
	}
	let _ = std::fs::remove_dir_all(&dir);
}


/// C13 / C04: the name xt was started under (argv[0]) is data like any other —
/// a name that is not UTF-8, an empty one, a very long one change nothing but
/// the name shown in the usage text: same exit status, same stdout, and never a
/// death by signal.
pub fn arg0_variants(out: &mut Out) {
	use std::ffi::OsString;
	use std::os::unix::ffi::OsStringExt;
	use std::os::unix::process::CommandExt;
	use std::process::{Command, Stdio};
	let dir = procs::scratch_dir("c13z");
	let _ = std::fs::write(format!("{dir}/a.json"), b"{\"a\": 1}\n");
	let names: Vec<(&str, OsString)> = vec![
		("plain", OsString::from("xt")),
		("latin1", OsString::from_vec(b"caf\xe9-xt".to_vec())),
		("invalid-utf8-path", OsString::from_vec(b"/opt/\xff\xfe/bin/xt".to_vec())),
		("empty", OsString::from("")),
		("long", OsString::from("x".repeat(5000))),
		("spaces", OsString::from("my xt tool")),
	];
	let lines: Vec<Vec<&str>> = vec![
		vec!["-h"],
		vec!["--help"],
		vec!["-V"],
		vec!["--version"],
		vec!["--bogus"],
		vec!["-x"],
		vec!["-f"],
		vec!["-f", "nope", "a.json"],
		vec!["-tj", "-tj", "a.json"],
		vec!["-tj", "a.json"],
		vec!["-tj", "missing.json"],
		vec!["-tt", "a.json", "a.json"],
	];
	for (_, bin) in bins() {
		for line in &lines {
			let mut reference: Option<(Option<i32>, Vec<u8>, usize)> = None;
			for (label, name) in &names {
				let o = Command::new(&bin).arg0(name).args(line).current_dir(&dir).stdin(Stdio::null()).stdout(Stdio::piped()).stderr(Stdio::piped()).output();
				let Ok(o) = o else { continue };
				let code = o.status.code();
				out.eval("arg0_is_only_a_name", &format!("{label} {}", line.join(" ")), true);
				let stderr_lines = o.stderr.iter().filter(|b| **b == b'\n').count();
				if code.is_none() {
					out.fail(
						"arg0_is_only_a_name",
						"",
						format!("xt started under the name {:?} ({label}) with arguments {:?}: killed by a signal ({:?}); stderr {:?}", name, line, o.status, String::from_utf8_lossy(&o.stderr).chars().take(200).collect::<String>()),
					);
					continue;
				}
				// help text and usage contain the name: compare status, and stdout / stderr line counts
				let shape = (code, if line.iter().any(|a| ["-h", "--help"].contains(a)) { vec![] } else { o.stdout.clone() }, stderr_lines);
				match &reference {
					None => reference = Some(shape),
					Some(r) => {
						if *r != shape {
							out.fail(
								"arg0_is_only_a_name",
								"",
								format!(
									"xt {:?}: under the name \"xt\" exit {:?} with {} bytes of stdout and {} stderr lines, under the name {:?} ({label}) exit {:?} with {} bytes of stdout and {} stderr lines",
									line,
									r.0,
									r.1.len(),
									r.2,
									name,
									shape.0,
									shape.1.len(),
									shape.2
								),
							);
						}
					}
				}
			}
		}
	}
	let _ = std::fs::remove_dir_all(&dir);
}

/// C04 / C11: a failing input whose offending line is long and not ASCII (the
/// parsers quote the line, or part of it, in their message): xt reports it and
/// exits 1 — whatever it does to the text of the message, it does not die.
pub fn c04_long_error_lines(out: &mut Out) {
	let dir = procs::scratch_dir("c04l");
	let mut inputs: Vec<(String, Fmt, Vec<u8>)> = vec![];
	for pad in 0..4usize {
		for (chname, ch) in [("2byte", "\u{e9}"), ("3byte", "\u{20ac}"), ("4byte", "\u{1f600}")] {
			for n in [200usize, 700, 3000] {
				let body: String = std::iter::repeat(ch).take(n).collect();
				let p = "x".repeat(pad);
				inputs.push((format!("toml.unterminated.{chname}.{n}.{pad}"), Fmt::Toml, format!("{p}a = \"{body}\n").into_bytes()));
				inputs.push((format!("toml.barekey.{chname}.{n}.{pad}"), Fmt::Toml, format!("{p}{body} = 1\n").into_bytes()));
				inputs.push((format!("toml.second_line.{chname}.{n}.{pad}"), Fmt::Toml, format!("ok = 1\n{p}b = [{body}\n").into_bytes()));
				inputs.push((format!("json.bareword.{chname}.{n}.{pad}"), Fmt::Json, format!("{{\"{p}\": {body}}}\n").into_bytes()));
				inputs.push((format!("yaml.unclosed.{chname}.{n}.{pad}"), Fmt::Yaml, format!("{p}a: [\"{body}\", \n").into_bytes()));
				inputs.push((format!("yaml.badindent.{chname}.{n}.{pad}"), Fmt::Yaml, format!("{p}a:\n  - {body}\n b: : [\n").into_bytes()));
			}
		}
	}
	for (_, bin) in bins() {
		for (label, f, bytes) in &inputs {
			let path = format!("{dir}/in.{}", f.name());
			std::fs::write(&path, bytes).expect("write");
			for via_stdin in [false, true] {
				let mut args = vec!["-tj".to_string()];
				if via_stdin {
					args.push(format!("-f{}", f.letter()));
				} else {
					args.push(path.clone());
				}
				let r = procs::run(&bin, &args, if via_stdin { Some(bytes) } else { None }, Duration::from_secs(60));
				out.eval("long_error_line_survives", &format!("{label}{via_stdin}"), true);
				if r.status != Status::Exit(1) || !r.stderr.starts_with(b"xt error") {
					out.fail(
						"binary_survives",
						"",
						format!(
							"[{label}] xt {} ({} bytes via {}): wait status {:?}, stderr {:?} — expected exit 1 with an `xt error` line",
							args.join(" "),
							bytes.len(),
							if via_stdin { "stdin" } else { "file" },
							r.status,
							String::from_utf8_lossy(&r.stderr).chars().take(160).collect::<String>()
						),
					);
				}
			}
		}
	}
	let _ = std::fs::remove_dir_all(&dir);
}
