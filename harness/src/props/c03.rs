//! C03 at the level of xt's API: translating N documents, however they are
//! separated and however they are distributed over the calls of one
//! `Translator` in mixed source formats, writes exactly the concatenation of
//! the single-document translations, and the target crate's own reader
//! recovers exactly N documents equal to the single-document values.

use crate::engines::output::{add_tail, frame_case, gen_call, CallSpec};
use crate::gen::{gen_doc, read_docs, GenOpts, Spelling, Val};
use crate::out::Out;
use crate::util::{hex, Rng};
use crate::xtapi::{random_supply, translate, Fmt, Supply, STREAM_FMTS};

fn describe(calls: &[CallSpec]) -> String {
	calls.iter().map(|c| format!("{} input={}", c.describe(), hex(&c.input))).collect::<Vec<_>>().join(" ; ")
}

fn short(b: &[u8]) -> String {
	if b.len() <= 400 {
		hex(b)
	} else {
		format!("{}…({} bytes)", hex(&b[..400]), b.len())
	}
}

/// The implementation-level statement on one scenario without failures.
fn statement(out: &mut Out, to: Fmt, calls: &[CallSpec], output: &[u8], results: &[Result<(), String>]) {
	let mut expected = vec![];
	let mut single_vals: Vec<Val> = vec![];
	for c in calls {
		for (v, text) in &c.docs {
			let one = translate(text, &c.supply, Some(c.from), to);
			if !one.ok() {
				out.fail(
					"single_translation_ok",
					"",
					format!("document {} ({} → {}, {}) alone fails: {}", v.short(), c.from.name(), to.name(), c.supply.describe(), one.describe()),
				);
				return;
			}
			match read_docs(to, &one.output) {
				Ok(vs) if vs.len() == 1 => single_vals.push(vs[0].clone()),
				other => {
					out.fail(
						"single_translation_is_one_document",
						"",
						format!("document {} ({} → {}) alone gives {} which the {} reader takes as {:?}", v.short(), c.from.name(), to.name(), hex(&one.output), to.name(), other.map(|v| v.len())),
					);
					return;
				}
			}
			expected.extend_from_slice(&one.output);
		}
	}
	let n = single_vals.len();
	let key = format!("{}{}", to.name(), describe(calls));
	out.eval("concat_of_singles", &key, n > 0);
	out.count(&format!("stmt.docs.{}", match n { 0 => "0", 1 => "1", 2..=9 => "2-9", 10..=99 => "10-99", _ => "100+" }));
	if results.iter().any(|r| r.is_err()) || output != expected.as_slice() {
		out.fail(
			"concat_of_singles",
			"",
			format!(
				"to={} calls: {} results={:?} output={} but the single-document translations concatenate to {}",
				to.name(),
				describe(calls),
				results,
				short(output),
				short(&expected)
			),
		);
		return;
	}
	// The same calls into writers that accept only short pieces: identical bytes.
	let inputs: Vec<(Vec<u8>, Supply, Option<Fmt>)> = calls.iter().map(|c| (c.input.clone(), c.supply.clone(), c.from_arg)).collect();
	if calls.iter().all(|c| c.tail.is_none()) {
		for pieces in [vec![1usize], vec![3, 1, 2], vec![5]] {
			let (r2, o2) = crate::xtapi::translate_many_pieces(&inputs, to, pieces.clone());
			out.eval("concat_short_writes", &format!("{key}{pieces:?}"), n > 0);
			if r2.iter().any(|r| r.is_err()) || o2 != expected {
				out.fail(
					"concat_short_writes",
					"",
					format!("to={} calls: {} into a writer accepting pieces {:?}: results={:?} output={} instead of {}", to.name(), describe(calls), pieces, r2, short(&o2), short(&expected)),
				);
				return;
			}
		}
	}
	out.eval("target_reader_recovers_n", &key, n > 0);
	if to == Fmt::Yaml && n == 0 {
		// serde_yaml's multi-document iterator yields one (null) document for
		// an empty string (the quirk behind K2); the statement for N = 0 is
		// that nothing was written, which the byte comparison above checked.
		out.count("stmt.yaml_target_zero_documents(empty output; serde_yaml would report 1)");
		return;
	}
	match read_docs(to, output) {
		Ok(vs) if vs == single_vals => {}
		other => {
			out.fail(
				"target_reader_recovers_n",
				"",
				format!(
					"to={} calls: {}: the {} reader recovers {:?} documents from {} where {} were translated",
					to.name(),
					describe(calls),
					to.name(),
					other.map(|v| v.len()),
					short(output),
					n
				),
			);
			return;
		}
	}
	if to == Fmt::Json {
		// One line per document.
		let mut lines: Vec<&[u8]> = output.split(|&b| b == b'\n').collect();
		let last = lines.pop().unwrap_or(&[]);
		let ok = last.is_empty()
			&& lines.len() == n
			&& lines.iter().zip(&single_vals).all(|(l, v)| matches!(read_docs(Fmt::Json, l), Ok(vs) if vs.len() == 1 && &vs[0] == v));
		out.eval("json_one_line_per_document", &key, n > 0);
		if !ok {
			out.fail("json_one_line_per_document", "", format!("calls: {}: output {} is not {} lines each holding one document", describe(calls), short(output), n));
		}
	}
}

fn indent_lines(text: &str, k: usize) -> String {
	let pad = " ".repeat(k);
	let mut s = String::new();
	for line in text.split_inclusive('\n') {
		s.push_str(&pad);
		s.push_str(line);
	}
	s
}

/// YAML streams whose documents are uniformly indented: reader-mode output
/// equals slice-mode output (the chunker keeps the indentation of a
/// document's first line).
fn indented_yaml(out: &mut Out, rng: &mut Rng, thorough: bool) {
	let n = if thorough { 3000 } else { 400 };
	let fixed: &[&str] = &["a: 1\nb: 2\n", "- 1\n- 2\n", "k:\n  - x\n  - y: z\n", "plain\n", "[1, 2]\n", "? a\n: b\n", "a: |\n  text\n  more\nb: 1\n", "- - 1\n  - 2\n- 3\n", "# c\na: 1\n"];
	for i in 0..n {
		let ndocs = rng.range(1, 4) as usize;
		let mut stream = String::new();
		let mut uniform_k = rng.range(1, 4) as usize;
		for d in 0..ndocs {
			let body = if i < fixed.len() * 4 || rng.chance(1, 3) {
				rng.pick(fixed).to_string()
			} else {
				let opts = GenOpts::cdm().for_formats(&[Fmt::Yaml, Fmt::Json]);
				let v = gen_doc(rng, &opts);
				let sp = Spelling { level: 1 + rng.below(2) as u8, salt: rng.next() };
				match crate::gen::spell_checked(Fmt::Yaml, &v, &sp).and_then(|b| String::from_utf8(b).ok()) {
					Some(t) => t,
					None => continue,
				}
			};
			if rng.chance(1, 3) {
				uniform_k = rng.range(1, 4) as usize;
			}
			if d > 0 {
				stream.push_str(*rng.pick(&["---\n", "...\n---\n", "--- # c\n", "...\n# c\n---\n"]));
			} else if rng.chance(1, 4) {
				stream.push_str(*rng.pick(&["---\n", "# lead\n", "\n"]));
			}
			stream.push_str(&indent_lines(&body, uniform_k));
		}
		if stream.is_empty() {
			continue;
		}
		let to = *rng.pick(&STREAM_FMTS);
		let slice = translate(stream.as_bytes(), &Supply::Slice, Some(Fmt::Yaml), to);
		let supply = match rng.below(3) {
			0 => Supply::Reader(vec![]),
			1 => Supply::Reader(vec![1]),
			_ => random_supply(rng),
		};
		let supply = if matches!(supply, Supply::Slice) { Supply::Reader(vec![3]) } else { supply };
		let reader = translate(stream.as_bytes(), &supply, Some(Fmt::Yaml), to);
		out.eval("indented_yaml_reader_eq_slice", &stream, slice.ok());
		out.count(if slice.ok() { "indented.slice_ok" } else { "indented.slice_err" });
		if slice.ok() != reader.ok() || (slice.ok() && slice.output != reader.output) {
			out.fail(
				"indented_yaml_reader_eq_slice",
				"",
				format!("YAML stream {:?} to {}: slice gives {} but {} gives {}", stream, to.name(), slice.describe(), supply.describe(), reader.describe()),
			);
		}
	}
}

/// The command line with several file arguments in mixed formats (resolved by
/// extension, by `-f`, or by detection): stdout is the concatenation, in
/// order, of what each file gives alone.
fn binary_multi_file(out: &mut Out, rng: &mut Rng, thorough: bool) {
	use crate::procs::{self, Status};
	use std::time::Duration;
	let Some(bin) = procs::bin(true) else {
		out.count("binary.missing");
		return;
	};
	let dir = procs::scratch_dir("c03");
	let rounds = if thorough { 120 } else { 25 };
	for round in 0..rounds {
		let nfiles = rng.range(2, 5) as usize;
		let mut files: Vec<String> = vec![];
		for k in 0..nfiles {
			let f = *rng.pick(&[Fmt::Json, Fmt::Yaml, Fmt::Msgpack, Fmt::Toml]);
			let mut o = crate::gen::GenOpts::cdm().for_formats(&[f]);
			o.root_collection = true;
			o.root_map = f == Fmt::Toml || rng.chance(1, 2);
			let ndocs = if f == Fmt::Toml { 1 } else { rng.range(1, 3) as usize };
			let docs: Vec<Vec<u8>> = (0..ndocs).filter_map(|_| crate::gen::spell(f, &crate::gen::gen_doc(rng, &o), &crate::gen::Spelling::plain())).collect();
			let bytes = crate::gen::join_stream(f, &docs, rng);
			// By extension (mostly), or extensionless (detection decides).
			let name = if rng.chance(4, 5) {
				let ext = match f {
					Fmt::Json => "json",
					Fmt::Yaml => *rng.pick(&["yaml", "yml"]),
					Fmt::Msgpack => "msgpack",
					Fmt::Toml => "toml",
				};
				format!("{dir}/r{round}f{k}.{ext}")
			} else {
				format!("{dir}/r{round}f{k}")
			};
			std::fs::write(&name, &bytes).expect("write scratch file");
			files.push(name);
		}
		for to in STREAM_FMTS {
			let t = format!("-t{}", to.letter());
			let mut args = vec![t.clone()];
			args.extend(files.iter().cloned());
			let all = procs::run(&bin, &args, None, Duration::from_secs(60));
			let mut expected = vec![];
			let mut first_failure = false;
			for f in &files {
				let one = procs::run(&bin, &[t.clone(), f.clone()], None, Duration::from_secs(60));
				expected.extend_from_slice(&one.stdout);
				if one.status != Status::Exit(0) {
					first_failure = true;
					break;
				}
			}
			out.eval("binary_multi_file_concat", &format!("{round}{}", to.name()), !first_failure);
			let want_status = if first_failure { Status::Exit(1) } else { Status::Exit(0) };
			if all.stdout != expected || all.status != want_status {
				out.fail(
					"binary_multi_file_concat",
					"",
					format!(
						"xt {} with files {:?}: stdout {} status {:?}, but the files one by one give {} (status {:?} expected)",
						t,
						files.iter().map(|f| f.rsplit('/').next().unwrap_or("").to_string()).collect::<Vec<_>>(),
						crate::util::hex(&all.stdout[..all.stdout.len().min(200)]),
						all.status,
						crate::util::hex(&expected[..expected.len().min(200)]),
						want_status
					),
				);
			}
		}
	}
	let _ = std::fs::remove_dir_all(&dir);
}

/// Inputs that more than one format accepts, given WITHOUT a format right after
/// an input of another kind, through one `Translator`: each input is detected
/// and translated on its own — what came before must not matter.
fn ambiguous_followers(out: &mut Out) {
	use crate::xtapi::{translate, translate_many};
	let firsts: Vec<(&str, Vec<u8>)> = vec![
		("toml", b"a = 1\n".to_vec()),
		("toml-table", b"[t]\nk = \"v\"\n".to_vec()),
		("yaml", b"k: v\n".to_vec()),
		("yaml-seq", b"- 1\n- two\n".to_vec()),
		("json", b"{\"j\": 1}\n".to_vec()),
		("json-stream", b"[1]\n[2]\n".to_vec()),
		("msgpack", b"\x81\xa1m\x01".to_vec()),
	];
	// a MessagePack array 16 of 97 small ints that is also UTF-16LE text
	let mut mp_utf16 = vec![0xdc, 0x00, 0x61];
	mp_utf16.extend_from_slice(&[0x00, 0x3a, 0x00, 0x20, 0x00, 0x31, 0x00, 0x0a, 0x00]);
	mp_utf16.extend(std::iter::repeat(0x00u8).take(97 - 9));
	let followers: Vec<(&str, Vec<u8>)> = vec![
		("[1]", b"[1]".to_vec()),
		("[\"x\"]", b"[\"x\"]\n".to_vec()),
		("[a]", b"[a]\n".to_vec()),
		("[1.5]", b"[1.5]\n".to_vec()),
		("json lines", b"[1]\n[2]\n".to_vec()),
		("-0", b"-0".to_vec()),
		("{\"a\": -0}", b"{\"a\": -0}\n".to_vec()),
		("2^64", b"[18446744073709551616]\n".to_vec()),
		("NEL in string", b"[\"a\xc2\x85b\"]\n".to_vec()),
		("1e400", b"[1e400]".to_vec()),
		("012", b"{\"a\": 012}".to_vec()),
		("yes", b"{\"a\": yes}\n".to_vec()),
		("a = 1", b"a = 1\n".to_vec()),
		("{}", b"{}".to_vec()),
		("msgpack/utf16", mp_utf16),
		("fixarray", b"\x91\x01".to_vec()),
	];
	for to in STREAM_FMTS {
		for (fname, first) in &firsts {
			let first_alone = translate(first, &Supply::Slice, None, to);
			for (gname, follower) in &followers {
				for supply in [Supply::Slice, Supply::Reader(vec![]), Supply::Reader(vec![1])] {
					let follower_alone = translate(follower, &supply, None, to);
					for chain in [vec![first, follower], vec![first, follower, first], vec![follower, first, follower]] {
						let inputs: Vec<(Vec<u8>, Supply, Option<Fmt>)> = chain.iter().map(|b| ((*b).clone(), supply.clone(), None)).collect();
						let (results, output) = translate_many(&inputs, to);
						// expected: each input as if it were alone, up to the first failure
						let mut expected = vec![];
						let mut expect_ok = vec![];
						for b in &chain {
							let alone = if std::ptr::eq(*b, first) { &first_alone } else { &follower_alone };
							// `first_alone` was taken from a slice; the verdict and output of a
							// single input do not depend on the supply (C02) for these inputs
							expect_ok.push(alone.ok());
							expected.extend_from_slice(&alone.output);
							if !alone.ok() {
								break;
							}
						}
						out.eval("input_independent_of_predecessor", &format!("{fname}/{gname}/{}/{}/{}", to.name(), supply.describe(), chain.len()), true);
						let got_ok: Vec<bool> = results.iter().map(|r| r.is_ok()).collect();
						let comparable = expect_ok.iter().all(|b| *b);
						if (comparable && (output != expected || got_ok.iter().any(|b| !*b))) || (!comparable && got_ok.iter().zip(&expect_ok).any(|(a, b)| a != b)) {
							out.fail(
								"concat_of_singles",
								"",
								format!(
									"to={} one Translator, inputs without a format [{}] ({}): output {} results {:?}; each input alone gives {} (ok: {:?})",
									to.name(),
									chain.iter().map(|b| hex(b)).collect::<Vec<_>>().join(" ; "),
									supply.describe(),
									hex(&output),
									got_ok,
									hex(&expected),
									expect_ok
								),
							);
						}
					}
				}
			}
		}
	}
}

pub fn run(out: &mut Out, rng: &mut Rng, thorough: bool) {
	binary_multi_file(out, &mut rng.fork(), thorough);
	ambiguous_followers(out);
	let n = if thorough { 2500 } else { 260 };
	for i in 0..n {
		let to = STREAM_FMTS[i % 3];
		let ncalls = match rng.below(6) {
			0 => 1,
			1..=3 => rng.range(1, 3),
			_ => rng.range(2, 5),
		} as usize;
		let many = i % 40 == 39;
		let mut calls = vec![];
		for c in 0..ncalls {
			let ndocs = if many && c == 0 {
				rng.range(100, 400) as usize
			} else {
				match rng.below(8) {
					0 => 0,
					1..=2 => 1,
					3..=6 => rng.range(2, 5) as usize,
					_ => rng.range(6, 30) as usize,
				}
			};
			calls.push(gen_call(rng, to, ndocs, out));
		}
		let with_tail = i % 7 == 3;
		if with_tail {
			let k = rng.below(calls.len() as u64) as usize;
			add_tail(rng, &mut calls[k]);
		}
		for c in &calls {
			out.count(&format!("call.{}.{}", c.from.name(), if matches!(c.supply, Supply::Slice) { "slice" } else { "reader" }));
			if c.from_arg.is_none() {
				out.count("call.detected_format");
			}
		}
		out.count(&format!("scenario.calls.{}", calls.len()));
		let Some(s) = frame_case(out, to, &calls) else { continue };
		if calls.iter().all(|c| c.tail.is_none()) {
			statement(out, to, &calls, &s.output, &s.results);
		} else {
			out.count("scenario.with_malformed_tail");
		}
		if i < 3 {
			out.sample(format!("frame to={} calls: {}", to.name(), calls.iter().map(CallSpec::describe).collect::<Vec<_>>().join(" ")));
		}
	}
	indented_yaml(out, rng, thorough);
}
