//! C09 at the level of xt's API: format detection is a transparent, total
//! pre-selection step.
//!
//! (a) `translate(None)` has the same verdict, output bytes and error text as
//!     `translate(Some(detected))`, for a slice and for readers under several
//!     schedules. A reader whose detection reached the end of the input
//!     continues as a slice (Lean: `eof_flips_to_slice`), so for a reader the
//!     detected run is compared with the explicit run in *both* supply modes,
//!     and agreement with the explicit slice run is accepted exactly when the
//!     handle reports having flipped. Anything else is a failure.
//! (b) every input that translates successfully is detected as the same format
//!     from a slice and from every reader schedule.
//! (c) after detection the consumer of the handle reads the complete,
//!     unaltered byte stream (`detect_reader_then_drain`).
//! (d) detection returns `Err` only when the source reported an error.

use crate::engines::input::{corpus, detect_scheds, yaml_reader_rejects, Sched};
use crate::out::Out;
use crate::util::{catch, hex, FaultWriter, Rng, SchedReader, READ_FAULT_TEXT};
use crate::xtapi::{translate, Fmt, Outcome, Supply, ALL_FMTS};

const UNABLE: &str = "unable to detect input format";

fn translate_sched(input: &[u8], sched: &Sched, from: Option<Fmt>, to: Fmt) -> Outcome {
	let mut w = FaultWriter::new(None, vec![]);
	let r = catch(|| xt::translate_reader(SchedReader::new(input, sched.caps.clone(), sched.cycle, None), from.map(Fmt::xt), to.xt(), &mut w));
	let result = match r {
		Ok(Ok(())) => Ok(()),
		Ok(Err(e)) => Err(e.to_string()),
		Err(p) => Err(format!("PANIC: {p}")),
	};
	Outcome { result, output: w.accepted }
}

struct Detection {
	answer: Result<Option<Fmt>, String>,
	became_slice: bool,
	drained: Result<Vec<u8>, String>,
}

fn detect_sched(input: &[u8], sched: &Sched, fail_at: Option<usize>, drain_buf: usize) -> Detection {
	match catch(|| xt::verif::detect_reader_then_drain(SchedReader::new(input, sched.caps.clone(), sched.cycle, fail_at), drain_buf)) {
		Ok((d, slice, bytes)) => Detection {
			answer: d.map(|f| f.map(Fmt::from_xt)).map_err(|e| e.to_string()),
			became_slice: slice,
			drained: bytes.map_err(|e| e.to_string()),
		},
		Err(p) => Detection { answer: Err(format!("PANIC: {p}")), became_slice: false, drained: Err(format!("PANIC: {p}")) },
	}
}

fn detect_slice(input: &[u8]) -> Result<Option<Fmt>, String> {
	match catch(|| xt::verif::detect_slice(input)) {
		Ok(Ok(f)) => Ok(f.map(Fmt::from_xt)),
		Ok(Err(e)) => Err(e.to_string()),
		Err(p) => Err(format!("PANIC: {p}")),
	}
}

fn fmt_name(f: &Result<Option<Fmt>, String>) -> String {
	match f {
		Ok(Some(f)) => f.name().to_string(),
		Ok(None) => "none".to_string(),
		Err(e) => format!("err({e})"),
	}
}

/// Statement (a) for one input, target and supply.
fn stmt_explicit(out: &mut Out, input: &[u8], label: &str, sched: Option<&Sched>, to: Fmt) {
	let mode = sched.map_or("slice".to_string(), |s| format!("reader(caps {})", s.field()));
	let (detected, became_slice) = match sched {
		None => (detect_slice(input), false),
		Some(s) => {
			let d = detect_sched(input, s, None, 64);
			(d.answer, d.became_slice)
		}
	};
	let auto = match sched {
		None => translate(input, &Supply::Slice, None, to),
		Some(s) => translate_sched(input, s, None, to),
	};
	let key = format!("{mode} {} {}", to.name(), hex(input));
	match detected {
		Err(e) => {
			// (d): no fault was injected here.
			out.eval("detect_err_only_from_source", &key, false);
			out.fail("detect_err_only_from_source", "", format!("input {} ({label}) {mode}: detection failed with '{e}' although the source reported no error", hex(input)));
		}
		Ok(None) => {
			out.eval("detect_none_message", &key, false);
			out.count("explicit.none");
			if auto.result != Err(UNABLE.to_string()) || !auto.output.is_empty() {
				out.fail(
					"detect_none_message",
					"",
					format!("input {} ({label}) {mode} to {}: no format detected, but translate(None) gave {}", hex(input), to.name(), auto.describe()),
				);
			}
		}
		Ok(Some(f)) => {
			let same_mode = match sched {
				None => translate(input, &Supply::Slice, Some(f), to),
				Some(s) => translate_sched(input, s, Some(f), to),
			};
			out.eval("detected_eq_explicit", &key, auto.ok());
			out.count(&format!("explicit.{}.{}", f.name(), if auto.ok() { "ok" } else { "err" }));
			if auto == same_mode {
				out.count("explicit.agrees_same_mode");
				return;
			}
			// K6: a YAML stream that libyaml's reader rejects — both runs fail,
			// but how many documents were processed before libyaml's error
			// (and therefore the partial output, and the message when an
			// earlier document fails for a reason of its own) depends on the
			// read boundaries, which the replayed prefix shifts.
			if sched.is_some()
				&& f == Fmt::Yaml
				&& yaml_reader_rejects(input)
				&& auto.result.is_err()
				&& same_mode.result.is_err()
				&& (auto.output.starts_with(&same_mode.output) || same_mode.output.starts_with(&auto.output))
			{
				out.count("explicit.K6_partial_output_differs_by_chunking");
				out.fail(
					"detected_eq_explicit",
					"K6-yaml-eager-reject-chunking",
					format!(
						"input {} ({label}) {mode} detected as yaml to {}: both runs fail, but translate(None) gave {} and translate(Some(yaml)) gave {}",
						hex(input),
						to.name(),
						auto.describe(),
						same_mode.describe()
					),
				);
				return;
			}
			// The same-mode explicit run differs. Legitimate only for a reader
			// whose detection reached the end of the input: it continued as a
			// slice, so it must equal the explicit slice run.
			if sched.is_some() && became_slice {
				let as_slice = translate(input, &Supply::Slice, Some(f), to);
				// ... and the explicit slice and reader runs may differ from each
				// other only the way C02 allows (both fail, partial outputs
				// prefix-comparable) or by a recorded finding of C02
				let c02_conform = as_slice.ok() == same_mode.ok()
					&& if as_slice.ok() { as_slice.output == same_mode.output } else { as_slice.output.starts_with(&same_mode.output) || same_mode.output.starts_with(&as_slice.output) };
				let known_c02 = (f == Fmt::Json && crate::props::c02::json_has_unseparated_scalar(input))
					|| (f == Fmt::Yaml && crate::props::c02::yaml_has_zero_documents(input))
					|| (f == Fmt::Json && to == Fmt::Toml && (crate::props::c02::json_has_dup_key(input) || crate::props::c02::json_has_toml_datetime_key(input)));
				if auto == as_slice && !c02_conform && !known_c02 {
					out.fail(
						"detected_eq_explicit",
						"",
						format!(
							"input {} ({label}) {mode} detected as {} to {}: translate(None) gave {} (the handle became a slice during detection), but naming the format gives {} from the same reader — the explicit slice and reader runs differ outside every recorded finding",
							hex(input),
							f.name(),
							to.name(),
							auto.describe(),
							same_mode.describe()
						),
					);
					return;
				}
				if auto == as_slice {
					out.count("explicit.agrees_with_slice_after_flip");
					out.sample(format!(
						"flip: input {} ({label}) {mode} as {} to {}: detected run == explicit slice run {} ; explicit reader run {}",
						hex(input),
						f.name(),
						to.name(),
						as_slice.describe(),
						same_mode.describe()
					));
					return;
				}
				out.fail(
					"detected_eq_explicit",
					"",
					format!(
						"input {} ({label}) {mode} detected as {} to {}: translate(None) gave {}; explicit reader run gave {}; explicit slice run gave {} (handle flipped to a slice during detection)",
						hex(input),
						f.name(),
						to.name(),
						auto.describe(),
						same_mode.describe(),
						as_slice.describe()
					),
				);
				return;
			}
			out.fail(
				"detected_eq_explicit",
				"",
				format!(
					"input {} ({label}) {mode} detected as {} to {}: translate(None) gave {} but translate(Some({})) gave {} (handle flipped: {became_slice})",
					hex(input),
					f.name(),
					to.name(),
					auto.describe(),
					f.name(),
					same_mode.describe()
				),
			);
		}
	}
}

pub fn run(out: &mut Out, rng: &mut Rng, thorough: bool) {
	// The minimal K6 instance, under the schedule that exhibits it.
	stmt_explicit(out, b"a: 1\n--- \"\xff\"\n", "hand.k5", Some(&Sched { caps: vec![6], cycle: true }), Fmt::Json);
	let items = corpus(rng, thorough);
	for item in &items {
		let input = &item.bytes[..];
		let scheds = detect_scheds(rng, input.len());
		let by_slice = detect_slice(input);

		// (a) explicit vs detected.
		let mut targets = vec![Fmt::Json];
		let extra = *rng.pick(&ALL_FMTS);
		if extra != Fmt::Json {
			targets.push(extra);
		}
		if thorough {
			targets = ALL_FMTS.to_vec();
		}
		for &to in &targets {
			stmt_explicit(out, input, item.label, None, to);
			for s in &scheds {
				stmt_explicit(out, input, item.label, Some(s), to);
			}
		}

		// (b), (c), (d) per schedule.
		let translates = ALL_FMTS.iter().any(|&to| translate(input, &Supply::Slice, None, to).ok())
			|| ALL_FMTS.iter().any(|&to| translate_sched(input, &scheds[0], None, to).ok());
		for s in &scheds {
			let drain_buf = *rng.pick(&[1usize, 2, 3, 7, 64, 8192]);
			let d = detect_sched(input, s, None, drain_buf);
			let key = format!("{} {} {}", s.field(), drain_buf, hex(input));
			// (c)
			out.eval("stream_complete_after_detection", &key, !input.is_empty());
			match &d.drained {
				Ok(bytes) if bytes == input => {}
				other => out.fail(
					"stream_complete_after_detection",
					"",
					format!("input {} ({}) caps={} drain_buf={drain_buf}: after detection ({}) the handle yielded {:?}", hex(input), item.label, s.field(), fmt_name(&d.answer), other.as_ref().map(|b| hex(b))),
				),
			}
			// (d)
			out.eval("detect_err_only_from_source", &key, d.answer.is_ok());
			if let Err(e) = &d.answer {
				out.fail("detect_err_only_from_source", "", format!("input {} ({}) caps={}: detection failed with '{e}' although the source reported no error", hex(input), item.label, s.field()));
			}
			// (b)
			out.eval("detect_slice_eq_reader", &key, translates);
			if d.answer != by_slice {
				if translates {
					// K7: input that is not UTF-8 whose first JSON value parses —
					// the slice JSON trial declines (whole-input UTF-8 check), the
					// reader JSON trial accepts (first value only).
					let k7 = std::str::from_utf8(input).is_err()
						&& crate::props::c02::json_first_value_parses(input)
						&& by_slice != Ok(Some(Fmt::Json))
						&& d.answer == Ok(Some(Fmt::Json));
					out.fail(
						"detect_slice_eq_reader",
						if k7 { "K7-json-trial-non-utf8" } else { "" },
						format!("input {} ({}) translates successfully, but is detected as {} from a slice and as {} from a reader with caps {}", hex(input), item.label, fmt_name(&by_slice), fmt_name(&d.answer), s.field()),
					);
				} else {
					out.count("detect.mode_disagreement_on_untranslatable_input");
					out.sample(format!("untranslatable input {} is detected as {} from a slice and {} from a reader", hex(input), fmt_name(&by_slice), fmt_name(&d.answer)));
				}
			}
		}
		if let Err(e) = &by_slice {
			out.fail("detect_err_only_from_source", "", format!("input {} ({}) slice: detection failed with '{e}'", hex(input), item.label));
		}

		// (d) with an injected persistent fault at every offset (quick: sampled):
		// an error must carry the source's text, and what the handle yields
		// afterwards is still a prefix of the input followed by the fault.
		let offsets: Vec<usize> = if thorough || input.len() <= 8 { (0..=input.len()).collect() } else { (0..4).map(|_| rng.below(input.len() as u64 + 1) as usize).collect() };
		for k in offsets {
			let s = &scheds[rng.below(scheds.len() as u64) as usize];
			let d = detect_sched(input, s, Some(k), 5);
			out.eval("fault_is_the_sources", &format!("{} {k} {}", s.field(), hex(input)), d.answer.is_err());
			out.count(&format!("fault.detect.{}", match &d.answer { Ok(Some(_)) => "selected", Ok(None) => "none", Err(_) => "err" }));
			if let Err(e) = &d.answer {
				if !e.contains(READ_FAULT_TEXT) {
					out.fail("fault_is_the_sources", "", format!("input {} caps={} fail_at={k}: detection failed with '{e}', which is not the source's error", hex(input), s.field()));
				}
			}
			match &d.drained {
				Ok(bytes) => {
					if bytes != input {
						out.fail("stream_complete_after_detection", "", format!("input {} caps={} fail_at={k}: handle yielded {} without an error", hex(input), s.field(), hex(bytes)));
					}
				}
				Err(e) => {
					if !e.contains(READ_FAULT_TEXT) {
						out.fail("fault_is_the_sources", "", format!("input {} caps={} fail_at={k}: reading the handle failed with '{e}'", hex(input), s.field()));
					}
				}
			}
		}
	}
}

/// Prints what detection and translation do with one input (triage / replay).
pub fn probe(input: &[u8], to: Fmt, caps: Option<&str>) {
	if let Some(c) = caps {
		let (cycle, list) = match c.strip_prefix('~') {
			Some(rest) => (true, rest),
			None => (false, c),
		};
		let s = Sched { caps: crate::util::parse_nats(list).expect("caps"), cycle };
		let d = detect_sched(input, &s, None, 64);
		println!("reader caps {}: detected {} became_slice={} drained_ok={}", s.field(), fmt_name(&d.answer), d.became_slice, d.drained.as_deref() == Ok(input));
		for f in [Fmt::Msgpack, Fmt::Json, Fmt::Yaml, Fmt::Toml] {
			let cell = std::cell::Cell::new(false);
			let spy = crate::engines::input::EofSpy { inner: SchedReader::new(input, s.caps.clone(), s.cycle, None), saw_eof: &cell };
			let r = catch(|| xt::verif::input_matches_reader(f.xt(), spy));
			println!("  fresh-reader trial {}: {:?} saw_eof={}", f.name(), r.map(|x| x.map_err(|e| e.to_string())), cell.get());
		}
		return;
	}
	println!("slice: detected {}", fmt_name(&detect_slice(input)));
	println!("slice: translate(None)      = {}", translate(input, &Supply::Slice, None, to).describe());
	for f in ALL_FMTS {
		println!("slice: translate(Some({:7})) = {}", f.name(), translate(input, &Supply::Slice, Some(f), to).describe());
	}
	for s in [Sched { caps: vec![], cycle: false }, Sched { caps: vec![1], cycle: true }] {
		let d = detect_sched(input, &s, None, 64);
		println!("reader caps {}: detected {} became_slice={} drained_ok={}", s.field(), fmt_name(&d.answer), d.became_slice, d.drained.as_deref() == Ok(input));
		println!("reader caps {}: translate(None)      = {}", s.field(), translate_sched(input, &s, None, to).describe());
		for f in ALL_FMTS {
			println!("reader caps {}: translate(Some({:7})) = {}", s.field(), f.name(), translate_sched(input, &s, Some(f), to).describe());
		}
	}
}

/// Searches for inputs on which the detected run and the explicit run differ
/// under the same constant-cap source (triage of schedule dependence).
pub fn probe_chunking() {
	let heads: [&[u8]; 4] = [b"a: 1\n", b"a: 1\n---\nb: 2\n", b"- x\n- y\n", b"{a: 1}\n"];
	let tails: [&[u8]; 6] = [b"--- \"\xff\"\n", b"---\nc: \xff\n", b"---\nc: 3\n---\nd: \xff\n", b"--- \xff", b"...\n---\n\xffz: 1\n", b"---\nc: 3\n# \xff\n"];
	let mut n = 0;
	let mut diffs = 0;
	for h in heads {
		for t in tails {
			for pad in 0..12usize {
				let mut input = h.to_vec();
				input.extend(std::iter::repeat(b'\n').take(pad));
				input.extend_from_slice(t);
				for cap in 1..40usize {
					let s = Sched { caps: vec![cap], cycle: true };
					let d = detect_sched(&input, &s, None, 64);
					n += 1;
					if let Ok(Some(f)) = d.answer {
						let auto = translate_sched(&input, &s, None, Fmt::Json);
						let expl = translate_sched(&input, &s, Some(f), Fmt::Json);
						if auto != expl {
							diffs += 1;
							if diffs <= 12 {
								println!("DIFF input={:?} cap=~{cap} flipped={} detected={}\n   auto={}\n   expl={}", String::from_utf8_lossy(&input), d.became_slice, f.name(), auto.describe(), expl.describe());
							}
						}
					}
				}
			}
		}
	}
	println!("{n} runs, {diffs} differences");
}

/// A source that fails once, with `ErrorKind::Interrupted`, on its n-th call
/// (outside the model, whose faults are persistent): shows what a consumer
/// that retries after `Interrupted` — as `read_exact` / `read_to_end` do —
/// gets from the capturing reader.
pub fn probe_transient() {
	struct Once {
		data: Vec<u8>,
		pos: usize,
		calls: usize,
		fail_call: usize,
	}
	impl std::io::Read for Once {
		fn read(&mut self, buf: &mut [u8]) -> std::io::Result<usize> {
			self.calls += 1;
			if self.calls == self.fail_call {
				return Err(std::io::Error::new(std::io::ErrorKind::Interrupted, "EINTR"));
			}
			let n = buf.len().min(self.data.len() - self.pos);
			buf[..n].copy_from_slice(&self.data[self.pos..self.pos + n]);
			self.pos += n;
			Ok(n)
		}
	}
	use xt::verif::HandleOp::*;
	let ops = [Borrow, Read(2), Borrow, Read(5), Read(5)];
	let obs = xt::verif::handle_program(Once { data: vec![1, 2, 3, 4, 5, 6, 7, 8], pos: 0, calls: 0, fail_call: 2 }, &ops);
	println!("data 01..08, source call 2 fails once with Interrupted; ops B,R2,B,R5,R5:");
	println!("  {}", obs.iter().map(crate::engines::input::obs_token).collect::<Vec<_>>().join(" "));
}
