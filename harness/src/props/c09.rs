//! C09 at the level of xt's API: format detection is a transparent, total
//! pre-selection step.

use crate::out::Out;
use crate::util::Rng;

pub fn run(_out: &mut Out, _rng: &mut Rng, _thorough: bool) {}
