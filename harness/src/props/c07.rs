//! C07 at the level of xt's API: a YAML text in UTF-16/32 translates exactly
//! like the same text in UTF-8.

use crate::engines::encoding::{encode_text, ENC_NAMES};
use crate::out::Out;
use crate::util::{hex, Rng};
use crate::xtapi::{random_supply, translate, Fmt, Supply, STREAM_FMTS};

fn yaml_char(rng: &mut Rng) -> char {
	loop {
		let c = match rng.below(8) {
			0..=3 => rng.range(0x20, 0x7E) as u32,
			4 => rng.range(0xA0, 0x7FF) as u32,
			5 => rng.range(0x800, 0xFFFD) as u32,
			6 => rng.range(0x10000, 0x10FFFF) as u32,
			_ => *rng.pick(&[0x09u32, 0x85, 0xA0, 0x7FF, 0x800, 0xD7FF, 0xE000, 0xFEFF, 0xFFFD, 0x10000, 0x10FFFF, 0x2028, 0x2029]),
		};
		if let Some(c) = char::from_u32(c) {
			if c != '"' && c != '\\' {
				return c;
			}
		}
	}
}

fn yaml_string(rng: &mut Rng) -> String {
	let len = rng.below(8) as usize;
	let s: String = (0..len).map(|_| yaml_char(rng)).collect();
	format!("\"{s}\"")
}

fn yaml_scalar(rng: &mut Rng) -> String {
	match rng.below(6) {
		0 => rng.below(1000).to_string(),
		1 => "true".to_string(),
		2 => "null".to_string(),
		3 => "1.5".to_string(),
		_ => yaml_string(rng),
	}
}

/// A YAML stream whose documents are collections (so that detection applies),
/// and whose first character is ASCII (as YAML requires for detection).
pub fn yaml_text(rng: &mut Rng, ascii_only: bool) -> String {
	let mut s = String::new();
	let docs = rng.range(1, 3);
	for d in 0..docs {
		if d > 0 || rng.chance(1, 3) {
			s.push_str("---\n");
		}
		match rng.below(4) {
			0 => {
				for _ in 0..rng.range(1, 4) {
					s.push_str(&format!("- {}\n", yaml_scalar(rng)));
				}
			}
			1 => {
				for i in 0..rng.range(1, 4) {
					s.push_str(&format!("k{i}: {}\n", yaml_scalar(rng)));
				}
			}
			2 => {
				s.push_str(&format!("{{{}: [{}, {}]}}\n", yaml_string(rng), yaml_scalar(rng), yaml_scalar(rng)));
			}
			_ => {
				s.push_str(&format!("k:\n  - {}\n  - a: {}\n", yaml_scalar(rng), yaml_scalar(rng)));
			}
		}
	}
	if ascii_only {
		s = s.chars().map(|c| if c.is_ascii() { c } else { 'x' }).collect();
	}
	s
}

pub fn run(out: &mut Out, rng: &mut Rng, thorough: bool) {
	let n = if thorough { 2500 } else { 250 };
	for i in 0..n {
		let ascii_only = i % 3 == 0;
		let text = yaml_text(rng, ascii_only);
		let to = *rng.pick(&STREAM_FMTS);
		let reference = translate(text.as_bytes(), &Supply::Slice, Some(Fmt::Yaml), to);
		out.count(if reference.ok() { "e2e.reference_ok" } else { "e2e.reference_err" });
		for enc in 1..=4u8 {
			for bom in [false, true] {
				let bytes = encode_text(&text, enc, bom);
				let supplies = [Supply::Slice, random_supply(rng), Supply::Reader(vec![1])];
				for supply in supplies.iter() {
					for from in [Some(Fmt::Yaml), None] {
						let got = translate(&bytes, supply, from, to);
						out.eval("translate_enc_eq_utf8", &format!("{enc}{bom}{}{:?}{}", supply.describe(), from, hex(&bytes)), reference.ok());
						if got.ok() != reference.ok() || (reference.ok() && got.output != reference.output) {
							out.fail(
								"translate_enc_eq_utf8",
								"",
								format!(
									"YAML text {:?} (ascii_only={ascii_only}) as {}{} bytes={} supply={} from={:?} to={}: got {} but the UTF-8 form gives {}",
									text,
									ENC_NAMES[enc as usize],
									if bom { "+BOM" } else { "" },
									hex(&bytes),
									supply.describe(),
									from.map(Fmt::name),
									to.name(),
									got.describe(),
									reference.describe()
								),
							);
						}
					}
				}
			}
		}
		// A reader that is interrupted once (a transient error, at a few offsets):
		// the UTF-16 / UTF-32 form may fail where the UTF-8 form fails, or go on;
		// it must never SUCCEED with anything but what the UTF-8 text gives.
		if reference.ok() && i % 4 == 0 {
			for enc in 1..=4u8 {
				let bytes = encode_text(&text, enc, i % 8 == 0);
				let mut offsets = vec![0usize, 4, bytes.len() / 2, bytes.len().saturating_sub(1), bytes.len()];
				offsets.push(rng.below(bytes.len() as u64 + 1) as usize);
				offsets.dedup();
				for at in offsets {
					let mut w = crate::util::FaultWriter::new(None, vec![]);
					let r = crate::util::catch(|| {
						let reader = crate::util::InterruptOnce { inner: crate::util::SchedReader::new(&bytes, vec![], true, None), at, fired: false };
						xt::translate_reader(reader, Some(xt::Format::Yaml), to.xt(), &mut w)
					});
					out.eval("interrupted_once_enc", &format!("{enc}{at}{}", hex(&bytes)), true);
					let bad = match &r {
						Err(p) => Some(format!("panicked: {p}")),
						Ok(Ok(())) if w.accepted != reference.output => Some(format!("succeeded with {} although the UTF-8 text gives {}", hex(&w.accepted), hex(&reference.output))),
						_ => None,
					};
					if let Some(b) = bad {
						out.fail(
							"translate_enc_eq_utf8",
							"",
							format!("YAML text {:?} as {} bytes={} from a reader interrupted once at offset {at}, to {}: {b}", text, ENC_NAMES[enc as usize], hex(&bytes), to.name()),
						);
					}
				}
			}
		}
		if i < 3 {
			out.sample(format!("e2e yaml text {:?} -> {}", text, to.name()));
		}
	}
	// Ill-formed input is an error through the API as well.
	let bad: [(&[u8], u8); 6] = [
		(&[0x61, 0x00, 0x3a, 0x00, 0x20, 0x00, 0x00, 0xdc, 0x0a, 0x00], 3),
		(&[0x00, 0x61, 0x00, 0x3a, 0x00, 0x20, 0xd8, 0x00, 0x00, 0x0a], 1),
		(&[0x00, 0x61, 0x00, 0x3a, 0x00, 0x20, 0xd8, 0x00], 1),
		(&[0x61, 0x00, 0x3a, 0x00, 0x20, 0x00, 0x31], 3),
		(&[0x00, 0x00, 0x00, 0x61, 0x00, 0x00, 0x00, 0x3a, 0x00, 0x00, 0x00, 0x20, 0x00, 0x11, 0x00, 0x00], 2),
		(&[0x61, 0x00, 0x00, 0x00, 0x3a, 0x00, 0x00, 0x00, 0x20, 0x00, 0x00, 0x00, 0x00, 0xd8, 0x00, 0x00], 4),
	];
	for (bytes, _enc) in bad.iter() {
		for supply in [Supply::Slice, Supply::Reader(vec![]), Supply::Reader(vec![1])] {
			let got = translate(bytes, &supply, Some(Fmt::Yaml), Fmt::Json);
			out.eval("illformed_is_error_e2e", &format!("{}{}", hex(bytes), supply.describe()), true);
			if got.ok() {
				out.fail(
					"illformed_is_error_e2e",
					"",
					format!("ill-formed YAML input {} ({}) was translated: {}", hex(bytes), supply.describe(), got.describe()),
				);
			}
		}
	}
}
