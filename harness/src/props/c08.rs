//! C08 at the level of xt's API: whatever is fed to a TOML translator, the
//! writer receives nothing or exactly one valid TOML document equal (up to
//! TOML's table-after-non-table reordering) to the first accepted input
//! value, in one piece; each listed refusal returns an error and adds no byte.

use crate::engines::output::{gen_tdoc, tcall_input, tomlout_case, gen_tcalls, TCall, TClass, TDoc};
use crate::gen::{read_docs, Val};
use crate::out::Out;
use crate::util::{hex, Rng};
use crate::xtapi::{random_supply, translate, Fmt, Supply, STREAM_FMTS};

fn describe(calls: &[TCall]) -> String {
	calls
		.iter()
		.map(|c| {
			format!(
				"{}{}[{}] input={}",
				c.from.name(),
				c.supply.describe(),
				c.docs.iter().map(|d| format!("{}:{}", d.class.tok(), d.what)).collect::<Vec<_>>().join(","),
				hex(&c.input)
			)
		})
		.collect::<Vec<_>>()
		.join(" ; ")
}

fn eager(from: Fmt, supply: &Supply) -> bool {
	matches!((from, supply), (Fmt::Json, Supply::Slice) | (Fmt::Msgpack, Supply::Slice))
}

fn statement(out: &mut Out, calls: &[TCall], s: &crate::engines::output::Session) {
	let key = describe(calls);
	let ndocs: usize = calls.iter().map(|c| c.docs.len()).sum();
	// 1. Nothing, or one valid document equal to the first document handed to
	//    the output when that document is acceptable.
	let mut first: Option<&TDoc> = None;
	'outer: for c in calls {
		for d in &c.docs {
			if d.class == TClass::SrcErr && eager(c.from, &c.supply) {
				break;
			}
			first = Some(d);
			break 'outer;
		}
	}
	out.eval("nothing_or_one_valid_document", &key, ndocs > 0);
	let expect_written = matches!(first, Some(d) if d.class == TClass::Table);
	if s.output.is_empty() {
		if expect_written {
			out.fail("first_acceptable_document_is_written", "", format!("calls: {key}: nothing was written, results {:?}", s.results));
		}
	} else {
		match read_docs(Fmt::Toml, &s.output) {
			Err(e) => out.fail(
				"nothing_or_one_valid_document",
				"",
				format!("calls: {key}: the writer received {} which toml::from_str rejects: {e}", hex(&s.output)),
			),
			Ok(vs) => {
				let got = &vs[0];
				let ok = match first {
					Some(TDoc { class: TClass::Table, val: Some(v), .. }) => got == &v.toml_reorder() || got == &v.toml_written_order(),
					_ => false,
				};
				let k5 = matches!(first, Some(TDoc { stringified: Some(w), .. }) if got == &w.toml_reorder() || got == &w.toml_written_order());
				if k5 {
					out.count("k5.yaml_later_nonstring_key_accepted");
					out.fail(
						"nothing_or_one_valid_document",
						"K5-yaml-later-nonstring-key-accepted",
						format!(
							"calls: {key}: a YAML mapping with a non-string key after its first key was accepted for TOML and written with the key's text: output {:?} reads back as {}, the input was {}",
							String::from_utf8_lossy(&s.output),
							got.short(),
							first.and_then(|d| d.val.as_ref()).map_or("none".to_string(), Val::short)
						),
					);
				} else if !ok {
					out.fail(
						"nothing_or_one_valid_document",
						"",
						format!(
							"calls: {key}: the writer received {} = {}, which is not the first document handed over ({})",
							hex(&s.output),
							got.short(),
							first.and_then(|d| d.val.as_ref()).map_or("none".to_string(), Val::short)
						),
					);
				}
			}
		}
	}
	// 2. One piece.
	out.eval("one_write", &key, !s.output.is_empty());
	if s.writes.last().copied().unwrap_or(0) > 1 {
		out.fail("one_write", "", format!("calls: {key}: the writer received {} separate writes", s.writes.last().unwrap()));
	}
	// 3. Refusals: an error, and no byte for the refused document.
	let mut used = false;
	let mut prev_len = 0usize;
	for (i, c) in calls.iter().enumerate() {
		let added = s.lens[i] - prev_len;
		prev_len = s.lens[i];
		let r = &s.results[i];
		let firstdoc = c.docs.first();
		let offered_any = matches!(firstdoc, Some(d) if !(d.class == TClass::SrcErr && eager(c.from, &c.supply)));
		let what: Option<(&str, bool, usize)> = match firstdoc {
			None => None,
			Some(d) if used && offered_any => Some(("second input", false, 0)),
			Some(d) if used => Some((if d.class == TClass::SrcErr { "malformed input" } else { "second input" }, false, 0)),
			Some(d) => match d.class {
				TClass::NonTable => Some(("non-table root", false, 0)),
				TClass::Reject => Some(("value the builder rejects", false, 0)),
				TClass::SrcErr => Some(("malformed document", false, 0)),
				TClass::Table if c.docs.len() > 1 => Some(("second document", false, usize::MAX)),
				TClass::Table => None,
			},
		};
		if let Some((name, _, allowed)) = what {
			out.eval("refusal_is_error_and_writes_nothing", &format!("{key}#{i}"), true);
			out.count(&format!("refusal.{}", name.replace(' ', "_")));
			let wrote_ok = if allowed == usize::MAX {
				// the first document of this call was accepted; the refused second adds nothing beyond it
				let single = translate(&c.docs[0].text, &c.supply, Some(c.from), Fmt::Toml);
				single.ok() && added == single.output.len()
			} else {
				added == 0
			};
			if r.is_ok() || !wrote_ok {
				out.fail(
					"refusal_is_error_and_writes_nothing",
					"",
					format!("calls: {key}: call {i} ({name}, {}) returned {:?} and added {added} bytes", c.docs.iter().map(|d| d.what.clone()).collect::<Vec<_>>().join(","), r),
				);
			}
		} else if firstdoc.is_some() {
			// a single acceptable document on an unused output
			out.eval("acceptable_document_is_accepted", &format!("{key}#{i}"), true);
			if r.is_err() {
				out.fail("acceptable_document_is_accepted", "", format!("calls: {key}: call {i} returned {:?}", r));
			}
		}
		if offered_any {
			used = true;
		}
	}
}

pub fn run(out: &mut Out, rng: &mut Rng, thorough: bool) {
	let n = if thorough { 6000 } else { 700 };
	for i in 0..n {
		let calls = gen_tcalls(rng);
		let s = tomlout_case(out, &calls);
		statement(out, &calls, &s);
		if i < 3 {
			out.sample(format!("tomlout {}", describe(&calls)));
		}
	}
	// Every sequence of document classes: up to 3 documents over 1..=3 calls.
	let classes = [TClass::Table, TClass::NonTable, TClass::Reject, TClass::SrcErr];
	let mut seqs: Vec<Vec<TClass>> = vec![vec![]];
	for len in 1..=3usize {
		let total = classes.len().pow(len as u32);
		for idx in 0..total {
			let mut k = idx;
			let mut v = vec![];
			for _ in 0..len {
				v.push(classes[k % classes.len()]);
				k /= classes.len();
			}
			seqs.push(v);
		}
	}
	for seq in &seqs {
		for ncalls in 1..=3usize {
			// every way of cutting the sequence into `ncalls` consecutive (possibly empty) parts
			let cuts: Vec<Vec<usize>> = match ncalls {
				1 => vec![vec![]],
				2 => (0..=seq.len()).map(|a| vec![a]).collect(),
				_ => (0..=seq.len()).flat_map(|a| (a..=seq.len()).map(move |b| vec![a, b])).collect(),
			};
			for cut in cuts {
				if !thorough && !rng.chance(1, 3) {
					continue;
				}
				let mut bounds = vec![0];
				bounds.extend(cut.iter().copied());
				bounds.push(seq.len());
				let mut calls = vec![];
				let mut ok = true;
				for ci in 0..ncalls {
					let part = &seq[bounds[ci]..bounds[ci + 1]];
					let mut from = *rng.pick(&STREAM_FMTS);
					if part.len() == 1 && matches!(part[0], TClass::Table | TClass::SrcErr) && rng.chance(1, 4) {
						from = Fmt::Toml;
					}
					let mut supply = random_supply(rng);
					if part.is_empty() && from == Fmt::Yaml {
						supply = Supply::Reader(vec![]);
					}
					let mut docs = vec![];
					for (di, &class) in part.iter().enumerate() {
						match gen_tdoc(rng, from, &supply, class, &format!("{ci}.{di}")) {
							Some(d) => docs.push(d),
							None => ok = false,
						}
					}
					// a malformed document must be the last of its input
					if let Some(p) = docs.iter().position(|d| d.class == TClass::SrcErr) {
						if p + 1 != docs.len() {
							ok = false;
						}
					}
					let input = tcall_input(from, &docs);
					calls.push(TCall { from, supply, docs, input });
				}
				if !ok {
					out.count("enumerated.not_expressible_in_chosen_format");
					continue;
				}
				let s = tomlout_case(out, &calls);
				statement(out, &calls, &s);
			}
		}
	}
	out.count(if thorough { "enumerated.every_class_sequence_upto3_docs_x_every_split_into_1to3_calls" } else { "enumerated.one_third_sample_of_class_sequences_x_splits" });
}
