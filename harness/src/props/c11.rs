//! C11 at the level of xt's API: errors name their true cause.

use crate::out::Out;
use crate::util::Rng;

pub fn run(_out: &mut Out, _rng: &mut Rng, _thorough: bool) {}
