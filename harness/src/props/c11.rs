//! C11 at the level of xt's API: errors name their true cause.
//!
//! Generated documents with ONE planted defect, translated through
//! `translate_slice` / `translate_reader`:
//!
//! (a) a syntax error (truncation, or one changed byte) — the error text must
//!     equal the source crate's own message for the same bytes (obtained here
//!     by running that crate directly, driving `deserialize_any` the way the
//!     transcoder does), be the same for every streaming target, and not
//!     mention "translation failed";
//! (b) one value the target cannot represent, at a generated path — the error
//!     text must contain the target crate's own reason (obtained here by
//!     handing the same value to the target crate directly);
//! (c) a writer that fails from byte k, for every k below the length of the
//!     fault-free output — the result must be an error whose text contains
//!     the writer's error text.

use std::cell::RefCell;
use std::fmt;
use std::io::{BufRead, BufReader};

use serde::de::{self, DeserializeSeed, Deserializer, MapAccess, SeqAccess, Visitor};
use serde::ser::{self, Serialize, SerializeMap, SerializeSeq, Serializer};
use serde::Deserialize;

use crate::engines::transcode::{DeErr, DeStats, Node, Sc, TreeDe};
use crate::gen::{gen_doc, join_stream, spell, spell_checked, GenOpts, Spelling, Val};
use crate::out::Out;
use crate::util::{catch, hex, FaultWriter, Rng, SchedReader, WRITE_FAULT_TEXT};
use crate::xtapi::{translate, Fmt, Supply, ALL_FMTS, STREAM_FMTS};

const TF: &str = "translation failed";

// --------------------------------------------------------------------------- helpers

fn supplies(rng: &mut Rng) -> [Supply; 3] {
	[Supply::Slice, Supply::Reader(vec![]), Supply::Reader(vec![rng.range(1, 9) as usize])]
}

/// Translates into a writer that fails from byte `limit`; an error comes back
/// as its `Display` text plus the `Display` of every error in its `source()`
/// chain.
fn translate_fault(input: &[u8], supply: &Supply, from: Fmt, to: Fmt, limit: usize) -> Result<(), (String, Vec<String>)> {
	let mut w = FaultWriter::new(Some(limit), vec![]);
	let r = catch(|| match supply {
		Supply::Slice => xt::translate_slice(input, Some(from.xt()), to.xt(), &mut w),
		Supply::Reader(sched) => {
			let reader = SchedReader::new(input, sched.clone(), true, None);
			xt::translate_reader(reader, Some(from.xt()), to.xt(), &mut w)
		}
	});
	match r {
		Ok(Ok(())) => Ok(()),
		Ok(Err(e)) => {
			let mut chain = vec![];
			let inner: &(dyn std::error::Error + Send + Sync) = e.as_ref();
			let mut cur: Option<&dyn std::error::Error> = inner.source();
			while let Some(c) = cur {
				chain.push(c.to_string());
				cur = c.source();
			}
			Err((e.to_string(), chain))
		}
		Err(p) => Err((format!("PANIC: {p}"), vec![])),
	}
}

/// The model value as the deserializer trees of the transcode engine (what
/// each source format's deserializer does with it: null is `visit_unit`,
/// integers travel as `u64`/`i64`).
fn node_of(v: &Val) -> Node {
	match v {
		Val::Null => Node::Scalar(Sc::Unit),
		Val::Bool(b) => Node::Scalar(Sc::Bool(*b)),
		Val::Int(i) => Node::Scalar(if *i >= 0 {
			u64::try_from(*i).map(Sc::U64).unwrap_or(Sc::I128(*i))
		} else {
			i64::try_from(*i).map(Sc::I64).unwrap_or(Sc::I128(*i))
		}),
		Val::F64(b) => Node::Scalar(Sc::F64(*b)),
		Val::F32(b) => Node::Scalar(Sc::F32(*b)),
		Val::Str(s) => Node::Scalar(Sc::Str(s.clone())),
		Val::Bytes(b) => Node::Scalar(Sc::Bytes(b.clone())),
		Val::Seq(xs) => Node::Seq(xs.iter().map(node_of).collect(), None),
		Val::Map(m) => Node::Map(m.iter().map(|(k, v)| (node_of(k), node_of(v))).collect(), None),
	}
}

/// `Serialize` for a tree, the way `transcode::Value` replays one.
struct NodeSer<'a>(&'a Node);

impl Serialize for NodeSer<'_> {
	fn serialize<S: Serializer>(&self, s: S) -> Result<S::Ok, S::Error> {
		match self.0 {
			Node::Scalar(sc) => match sc {
				Sc::Unit => s.serialize_unit(),
				Sc::Bool(v) => s.serialize_bool(*v),
				Sc::I8(v) => s.serialize_i8(*v),
				Sc::I16(v) => s.serialize_i16(*v),
				Sc::I32(v) => s.serialize_i32(*v),
				Sc::I64(v) => s.serialize_i64(*v),
				Sc::I128(v) => s.serialize_i128(*v),
				Sc::U8(v) => s.serialize_u8(*v),
				Sc::U16(v) => s.serialize_u16(*v),
				Sc::U32(v) => s.serialize_u32(*v),
				Sc::U64(v) => s.serialize_u64(*v),
				Sc::U128(v) => s.serialize_u128(*v),
				Sc::F32(b) => s.serialize_f32(f32::from_bits(*b)),
				Sc::F64(b) => s.serialize_f64(f64::from_bits(*b)),
				Sc::Char(c) => s.serialize_char(*c),
				Sc::Str(v) => s.serialize_str(v),
				Sc::Bytes(v) => s.serialize_bytes(v),
			},
			Node::Fail(_) | Node::AFail(_) => Err(serde::ser::Error::custom("scripted failure")),
			Node::Seq(es, _) => {
				let mut q = s.serialize_seq(Some(es.len()))?;
				for e in es {
					q.serialize_element(&NodeSer(e))?;
				}
				q.end()
			}
			Node::Map(es, _) => {
				let mut m = s.serialize_map(Some(es.len()))?;
				for (k, v) in es {
					m.serialize_key(&NodeSer(k))?;
					m.serialize_value(&NodeSer(v))?;
				}
				m.end()
			}
		}
	}
}

/// The target crate's own reason for refusing `v`, obtained without xt:
/// serde_json / serde_yaml / rmp_serde by serializing the value with the
/// crate's serializer, toml the way xt uses it (its `Value` visitor driven by
/// a deserializer — here the scripted one), plus `to_string_pretty`.
fn target_reason(to: Fmt, v: &Val) -> Option<String> {
	let node = node_of(v);
	match to {
		Fmt::Json => serde_json::to_writer(std::io::sink(), &NodeSer(&node)).err().map(|e| e.to_string()),
		Fmt::Yaml => serde_yaml::to_writer(std::io::sink(), &NodeSer(&node)).err().map(|e| e.to_string()),
		Fmt::Msgpack => {
			let mut buf = vec![];
			let mut ser = rmp_serde::Serializer::new(&mut buf);
			NodeSer(&node).serialize(&mut ser).err().map(|e| e.to_string())
		}
		Fmt::Toml => {
			let stats = RefCell::new(DeStats::default());
			match toml::Value::deserialize(TreeDe::new(&node, 0, &stats)) {
				Err(mut e) => {
					// strip the scripted deserializer's decoration
					while let DeErr::Wrap(inner) = e {
						e = *inner;
					}
					match e {
						DeErr::Custom(m) => Some(m),
						DeErr::Own(_) => None,
						DeErr::Wrap(_) => unreachable!(),
					}
				}
				Ok(toml::Value::Table(t)) => toml::to_string_pretty(&t).err().map(|e| e.to_string()),
				Ok(_) => Some("root of TOML output must be a table".to_string()),
			}
		}
	}
}

// --------------------------------------------------------------------------- the reference oracle

/// Which side failed first, with that side's own message.
#[derive(Clone, Debug, PartialEq)]
enum First {
	De(String),
	Ser(String),
}

/// Records the first failure only.
struct Flag(RefCell<Option<First>>);

impl Flag {
	fn new() -> Flag {
		Flag(RefCell::new(None))
	}
	fn record(&self, f: First) {
		let mut slot = self.0.borrow_mut();
		if slot.is_none() {
			*slot = Some(f);
		}
	}
	fn ser<E: de::Error, T: fmt::Display>(&self, e: T) -> E {
		self.record(First::Ser(e.to_string()));
		E::custom(e)
	}
	fn de<E: ser::Error, T: fmt::Display>(&self, e: T) -> E {
		self.record(First::De(e.to_string()));
		E::custom(e)
	}
}

/// A minimal stringifying transcoder in the style of `serde_transcode`,
/// written here independently of xt's: values go from the source crate's
/// deserializer straight into the target crate's serializer, errors cross the
/// serde boundaries as strings, and the flag remembers which side failed first
/// and what that side itself said. It accepts the visitor calls xt's
/// transcoder accepts.
struct OVis<'f, S> {
	ser: S,
	flag: &'f Flag,
}

macro_rules! oracle_scalars {
	($($name:ident($ty:ty) => $method:ident;)*) => {
		$(fn $name<E: de::Error>(self, v: $ty) -> Result<S::Ok, E> {
			self.ser.$method(v).map_err(|e| self.flag.ser(e))
		})*
	};
}

impl<'de, S: Serializer> Visitor<'de> for OVis<'_, S> {
	type Value = S::Ok;

	fn expecting(&self, f: &mut fmt::Formatter) -> fmt::Result {
		f.write_str("any supported value")
	}

	oracle_scalars! {
		visit_bool(bool) => serialize_bool;
		visit_i8(i8) => serialize_i8;
		visit_i16(i16) => serialize_i16;
		visit_i32(i32) => serialize_i32;
		visit_i64(i64) => serialize_i64;
		visit_i128(i128) => serialize_i128;
		visit_u8(u8) => serialize_u8;
		visit_u16(u16) => serialize_u16;
		visit_u32(u32) => serialize_u32;
		visit_u64(u64) => serialize_u64;
		visit_u128(u128) => serialize_u128;
		visit_f32(f32) => serialize_f32;
		visit_f64(f64) => serialize_f64;
		visit_char(char) => serialize_char;
		visit_str(&str) => serialize_str;
		visit_bytes(&[u8]) => serialize_bytes;
	}

	fn visit_unit<E: de::Error>(self) -> Result<S::Ok, E> {
		self.ser.serialize_unit().map_err(|e| self.flag.ser(e))
	}

	fn visit_seq<A: SeqAccess<'de>>(self, mut a: A) -> Result<S::Ok, A::Error> {
		let flag = self.flag;
		let mut seq = self.ser.serialize_seq(a.size_hint()).map_err(|e| flag.ser(e))?;
		while let Some(()) = a.next_element_seed(OSeqSeed(&mut seq, flag))? {}
		seq.end().map_err(|e| flag.ser(e))
	}

	fn visit_map<A: MapAccess<'de>>(self, mut a: A) -> Result<S::Ok, A::Error> {
		let flag = self.flag;
		let mut map = self.ser.serialize_map(a.size_hint()).map_err(|e| flag.ser(e))?;
		while let Some(()) = a.next_key_seed(OKeySeed(&mut map, flag))? {
			a.next_value_seed(OValSeed(&mut map, flag))?;
		}
		map.end().map_err(|e| flag.ser(e))
	}
}

struct OFwd<'f, D>(RefCell<Option<D>>, &'f Flag);

impl<'de, D: Deserializer<'de>> Serialize for OFwd<'_, D> {
	fn serialize<S: Serializer>(&self, s: S) -> Result<S::Ok, S::Error> {
		let de = self.0.borrow_mut().take().expect("the oracle's element is serialized once");
		de.deserialize_any(OVis { ser: s, flag: self.1 }).map_err(|e| self.1.de(e))
	}
}

struct OSeqSeed<'a, 'f, Q>(&'a mut Q, &'f Flag);
struct OKeySeed<'a, 'f, M>(&'a mut M, &'f Flag);
struct OValSeed<'a, 'f, M>(&'a mut M, &'f Flag);

impl<'de, Q: SerializeSeq> DeserializeSeed<'de> for OSeqSeed<'_, '_, Q> {
	type Value = ();
	fn deserialize<D: Deserializer<'de>>(self, de: D) -> Result<(), D::Error> {
		self.0.serialize_element(&OFwd(RefCell::new(Some(de)), self.1)).map_err(|e| self.1.ser(e))
	}
}

impl<'de, M: SerializeMap> DeserializeSeed<'de> for OKeySeed<'_, '_, M> {
	type Value = ();
	fn deserialize<D: Deserializer<'de>>(self, de: D) -> Result<(), D::Error> {
		self.0.serialize_key(&OFwd(RefCell::new(Some(de)), self.1)).map_err(|e| self.1.ser(e))
	}
}

impl<'de, M: SerializeMap> DeserializeSeed<'de> for OValSeed<'_, '_, M> {
	type Value = ();
	fn deserialize<D: Deserializer<'de>>(self, de: D) -> Result<(), D::Error> {
		self.0.serialize_value(&OFwd(RefCell::new(Some(de)), self.1)).map_err(|e| self.1.ser(e))
	}
}

/// What is done with each document's deserializer.
trait DocSink {
	fn doc<'de, D: Deserializer<'de>>(&mut self, de: D) -> Result<(), String>;
}

/// Accept everything (driving `deserialize_any`, like the transcoder).
struct ValSink;

impl DocSink for ValSink {
	fn doc<'de, D: Deserializer<'de>>(&mut self, de: D) -> Result<(), String> {
		Val::deserialize(de).map(|_| ()).map_err(|e| e.to_string())
	}
}

/// Feed the document to the target crate's serializer through the oracle.
struct OracleSink<'f> {
	to: Fmt,
	flag: &'f Flag,
}

impl DocSink for OracleSink<'_> {
	fn doc<'de, D: Deserializer<'de>>(&mut self, de: D) -> Result<(), String> {
		let flag = self.flag;
		let top = |e: D::Error| {
			flag.record(First::De(e.to_string()));
			e.to_string()
		};
		match self.to {
			Fmt::Json => {
				let mut ser = serde_json::Serializer::new(std::io::sink());
				de.deserialize_any(OVis { ser: &mut ser, flag }).map(|_| ()).map_err(top)
			}
			Fmt::Yaml => {
				let mut ser = serde_yaml::Serializer::new(std::io::sink());
				de.deserialize_any(OVis { ser: &mut ser, flag }).map(|_| ()).map_err(top)
			}
			Fmt::Msgpack => {
				let mut ser = rmp_serde::Serializer::new(std::io::sink());
				de.deserialize_any(OVis { ser: &mut ser, flag }).map(|_| ()).map_err(top)
			}
			Fmt::Toml => TomlSink.doc(de),
		}
	}
}

/// toml as xt uses it for deserializer input: its `Value` visitor driven by
/// the source crate's deserializer, then the table writer.
struct TomlSink;

impl DocSink for TomlSink {
	fn doc<'de, D: Deserializer<'de>>(&mut self, de: D) -> Result<(), String> {
		match toml::Value::deserialize(de) {
			Err(e) => Err(e.to_string()),
			Ok(toml::Value::Table(t)) => toml::to_string_pretty(&t).map(|_| ()).map_err(|e| e.to_string()),
			Ok(_) => Err("root of TOML output must be a table".to_string()),
		}
	}
}

/// Hands every document of `bytes` to `sink`, consuming the input with the
/// source crate the way xt consumes it for this supply mode. `Ok` = no error.
fn source_run<K: DocSink>(from: Fmt, bytes: &[u8], slice: bool, sink: &mut K) -> Result<(), String> {
	match from {
		Fmt::Json => {
			if slice {
				// the value path: each document is collected completely first
				let s = std::str::from_utf8(bytes).map_err(|e| e.to_string())?;
				for v in serde_json::Deserializer::from_str(s).into_iter::<Val>() {
					let v = v.map_err(|e| e.to_string())?;
					let node = node_of(&v);
					let stats = RefCell::new(DeStats::default());
					sink.doc(TreeDe::new(&node, 0, &stats))?;
				}
			} else {
				let mut de = serde_json::Deserializer::from_reader(bytes);
				while de.end().is_err() {
					sink.doc(&mut de)?;
				}
			}
			Ok(())
		}
		Fmt::Yaml => {
			let utf8 = xt::verif::yaml_encoding_detect(&bytes[..bytes.len().min(xt::verif::YAML_DETECT_LEN)]) == 0;
			match std::str::from_utf8(bytes) {
				Ok(s) if slice && utf8 => {
					for de in serde_yaml::Deserializer::from_str(s) {
						sink.doc(de)?;
					}
				}
				_ => {
					// xt splits the stream into documents with its own libyaml
					// binding (the chunker, subject of other properties) before
					// serde_yaml sees each one: a syntax error anywhere in a
					// document is found in this pass, in the chunker's wording
					let reader = xt::verif::yaml_encoder_from_reader(Box::new(bytes)).map_err(|e| e.to_string())?;
					for doc in xt::verif::yaml_chunker(reader) {
						let (text, _) = doc.map_err(|e| e.to_string())?;
						sink.doc(serde_yaml::Deserializer::from_str(&text))?;
					}
				}
			}
			Ok(())
		}
		Fmt::Toml => {
			let s = std::str::from_utf8(bytes).map_err(|e| e.to_string())?;
			sink.doc(toml::Deserializer::new(s))
		}
		Fmt::Msgpack => {
			if slice {
				// xt first measures each value with its own size calculator
				// (the subject of other properties) and hands rmp_serde exactly
				// that many bytes
				let mut rest = bytes;
				while !rest.is_empty() {
					let size = xt::verif::msgpack_value_size(rest, xt::verif::MSGPACK_DEPTH_LIMIT)
						.map_err(|code| MSGPACK_SLICE_OWN[code as usize].to_string())?;
					let (next, tail) = rest.split_at(size);
					rest = tail;
					let mut de = rmp_serde::Deserializer::from_read_ref(next);
					de.set_max_depth(xt::verif::MSGPACK_DEPTH_LIMIT);
					sink.doc(&mut de)?;
				}
			} else {
				let mut r = BufReader::new(bytes);
				while !r.fill_buf().map_err(|e| e.to_string())?.is_empty() {
					let mut de = rmp_serde::Deserializer::new(&mut r);
					de.set_max_depth(xt::verif::MSGPACK_DEPTH_LIMIT);
					sink.doc(&mut de)?;
				}
			}
			Ok(())
		}
	}
}

// --------------------------------------------------------------------------- (a) syntax errors

/// Messages of xt's own MessagePack pre-scan of a slice (the value size
/// calculator runs before rmp_serde sees the bytes), by hook error code.
const MSGPACK_SLICE_OWN: [&str; 3] =
	["unexpected end of MessagePack input", "invalid MessagePack marker in input", "depth limit exceeded"];

fn syntax_errors(out: &mut Out, rng: &mut Rng, thorough: bool) {
	let docs = if thorough { 60 } else { 8 };
	for from in ALL_FMTS {
		let opts = {
			let mut o = GenOpts::cdm().for_formats(&[from, Fmt::Json, Fmt::Yaml, Fmt::Msgpack]);
			o.max_depth = 3;
			o.max_width = 3;
			o.root_collection = true;
			o
		};
		let mut made = 0;
		let mut attempts = 0;
		while made < docs && attempts < docs * 20 {
			attempts += 1;
			let v = gen_doc(rng, &opts);
			let Some(mut bytes) = spell_checked(from, &v, &Spelling::random(rng)) else {
				continue;
			};
			if from != Fmt::Toml && rng.chance(1, 3) {
				let v2 = gen_doc(rng, &opts);
				if let Some(b2) = spell_checked(from, &v2, &Spelling::random(rng)) {
					bytes = join_stream(from, &[bytes, b2], rng);
				}
			}
			if bytes.is_empty() || bytes.len() > 160 {
				continue;
			}
			made += 1;
			let positions: Vec<usize> = if thorough || bytes.len() <= 10 {
				(0..bytes.len()).collect()
			} else {
				(0..10).map(|_| rng.below(bytes.len() as u64) as usize).collect()
			};
			for k in positions {
				let mut mutants = vec![bytes[..k].to_vec()];
				let mut flipped = bytes.clone();
				flipped[k] = match rng.below(4) {
					0 => flipped[k] ^ (1 << rng.below(8)),
					1 => *rng.pick(b"{}[]:,\"'\\ \n\t-#&*!|>%@`=.0\x00\x7f\xff\xc0\xc1\x80"),
					2 => flipped[k].wrapping_add(1),
					_ => rng.next() as u8,
				};
				if flipped != bytes {
					mutants.push(flipped);
				}
				for m in mutants {
					if from == Fmt::Yaml && xt::verif::yaml_encoding_detect(&m[..m.len().min(xt::verif::YAML_DETECT_LEN)]) != 0 {
						// looks like UTF-16/32 to xt's encoding detection: C07's subject
						out.count("syntax.yaml_mutant_not_utf8_encoding");
						continue;
					}
					for supply in supplies(rng) {
						syntax_case(out, from, &m, &supply);
					}
				}
			}
		}
	}
}

/// serde_yaml's wording of a libyaml error, reworded the ways xt's chunker can
/// word the same error: `<problem> at <mark>[, <context> at <mark>]` with
/// every mark printed (serde_yaml omits a mark at offset 0, and a context mark
/// equal to the problem mark).
fn yaml_chunker_wordings(serde_yaml_text: &str) -> Vec<String> {
	fn mark_of(part: &str) -> Option<&str> {
		part.rfind(" at line ").or_else(|| part.rfind(" at position ")).map(|i| &part[i..])
	}
	let (problem, context) = match serde_yaml_text.split_once(", ") {
		Some((p, c)) => (p, Some(c)),
		None => (serde_yaml_text, None),
	};
	let problem = match mark_of(problem) {
		Some(_) => problem.to_string(),
		None => format!("{problem} at position 0"),
	};
	match context {
		None => vec![problem],
		Some(c) if mark_of(c).is_some() => vec![format!("{problem}, {c}")],
		Some(c) => vec![format!("{problem}, {c}{}", mark_of(&problem).unwrap()), format!("{problem}, {c} at position 0")],
	}
}

/// serde_yaml's own wording for the first problem in a whole YAML stream.
fn serde_yaml_message(bytes: &[u8]) -> Option<String> {
	for de in serde_yaml::Deserializer::from_slice(bytes) {
		if let Err(e) = Val::deserialize(de) {
			return Some(e.to_string());
		}
	}
	None
}

fn first_failure(from: Fmt, m: &[u8], slice: bool, to: Fmt) -> Option<First> {
	let flag = Flag::new();
	let r = source_run(from, m, slice, &mut OracleSink { to, flag: &flag });
	let first = flag.0.borrow().clone();
	match (first, r) {
		(Some(f), _) => Some(f),
		// an error before any document reached the reference transcoder
		// (xt's MessagePack pre-scan, its YAML chunker, UTF-8 validation)
		(None, Err(e)) => Some(First::De(e)),
		(None, Ok(())) => None,
	}
}

fn syntax_case(out: &mut Out, from: Fmt, m: &[u8], supply: &Supply) {
	let slice = matches!(supply, Supply::Slice);
	let key = format!("{} {} {}", from.name(), supply.describe(), hex(m));
	// MessagePack as the target accepts every value: a failure there is the input's
	if first_failure(from, m, slice, Fmt::Msgpack).is_none() {
		out.count("syntax.mutation_harmless");
		return;
	}
	out.count(&format!("syntax.defective.{}", from.name()));
	// the source crate's message with an accept-everything visitor, for comparison
	let accept_all = source_run(from, m, slice, &mut ValSink).err();
	let mut texts = vec![];
	for to in STREAM_FMTS {
		// which side fails first for this target, and what that side's crate
		// itself says, by the harness's own transcoder
		let first = first_failure(from, m, slice, to);
		let got = translate(m, supply, Some(from), to);
		out.eval("syntax_error_message", &format!("{key} {}", to.name()), true);
		let describe = |what: &str| {
			format!(
				"{what}: {} input {} ({}) to {}: xt says {:?}; first failure by the reference transcoder over the {} crate: {:?}",
				from.name(),
				hex(m),
				supply.describe(),
				to.name(),
				got.result,
				from.name(),
				first
			)
		};
		let text = match &got.result {
			Ok(()) => {
				out.fail("syntax_error_is_reported", "", describe("malformed input was accepted"));
				continue;
			}
			Err(text) => text,
		};
		if text.starts_with("PANIC") {
			out.fail("syntax_error_no_panic", "", describe("panic"));
			continue;
		}
		let expected = match &first {
			Some(First::De(e)) => e,
			Some(First::Ser(reason)) => {
				// a value before the syntax error is refused by the target: the
				// output side failed first, and must be named
				out.count("syntax.output_side_failed_first");
				if !text.contains(reason.as_str()) {
					out.fail("unrepresentable_reason_in_message", "", describe("the target failed first but its reason is not in the message"));
				}
				continue;
			}
			None => {
				out.fail("syntax_error_spurious", "", describe("the reference transcoder succeeds for this target"));
				continue;
			}
		};
		texts.push((to, text.clone()));
		if text.contains(TF) {
			out.fail("syntax_error_never_translation_failed", "", describe("input-side failure mentions 'translation failed'"));
		} else if text != expected {
			out.fail("syntax_error_message_is_source_crates", "", describe("message differs from the source crate's"));
		} else if accept_all.as_ref() == Some(expected) {
			out.count("syntax.message_equals_source_crates_accept_all_parse");
		} else if from == Fmt::Msgpack && slice && MSGPACK_SLICE_OWN.contains(&text.as_str()) {
			out.count("syntax.message_is_xt_msgpack_prescan");
		} else if text.starts_with("invalid type: ") {
			// well-formed input of a serde type the transcoder does not forward
			// (MessagePack ext, YAML tag): refused in the source crate's wording
			out.count("syntax.message_is_source_crates_invalid_type");
		} else {
			out.count("syntax.message_other_agreeing");
		}
	}
	if from == Fmt::Yaml {
		// where the message comes from xt's chunker, compare its wording with serde_yaml's own
		if let (Some((_, text)), Some(own)) = (texts.first(), serde_yaml_message(m)) {
			if *text == own {
				out.count("syntax.yaml.same_as_serde_yaml");
			} else if yaml_chunker_wordings(&own).contains(text) {
				out.count("syntax.yaml.serde_yaml_message_with_every_mark_printed");
			} else {
				out.count("syntax.yaml.not_comparable");
				out.sample(format!("yaml wording: xt {text:?} vs serde_yaml {own:?} for {}", hex(m)));
			}
		}
	}
	if let Some((_, first)) = texts.first() {
		if texts.iter().any(|(_, t)| t != first) {
			out.fail(
				"syntax_error_same_for_every_target",
				"",
				format!("{} input {} ({}): messages differ between targets: {:?}", from.name(), hex(m), supply.describe(), texts),
			);
		}
	}
}

// --------------------------------------------------------------------------- (b) unrepresentable values

/// Replaces the node at a random path (seq index / map key / map value steps)
/// of depth ≤ `max_depth`; `key_only` restricts the final step to a map key.
/// Returns the path description.
fn plant(v: &mut Val, planted: &Val, key_only: bool, max_depth: usize, rng: &mut Rng) -> Option<String> {
	// collect candidate paths
	fn walk(v: &Val, path: &mut Vec<(u8, usize)>, acc: &mut Vec<Vec<(u8, usize)>>, max_depth: usize) {
		if path.len() >= max_depth {
			return;
		}
		match v {
			Val::Seq(xs) => {
				for (i, x) in xs.iter().enumerate() {
					path.push((0, i));
					acc.push(path.clone());
					walk(x, path, acc, max_depth);
					path.pop();
				}
			}
			Val::Map(m) => {
				for (i, (_, x)) in m.iter().enumerate() {
					path.push((1, i));
					acc.push(path.clone());
					path.pop();
					path.push((2, i));
					acc.push(path.clone());
					walk(x, path, acc, max_depth);
					path.pop();
				}
			}
			_ => {}
		}
	}
	let mut acc = vec![];
	walk(v, &mut vec![], &mut acc, max_depth);
	let cands: Vec<_> = acc.into_iter().filter(|p| (p.last().unwrap().0 == 1) == key_only).collect();
	if cands.is_empty() {
		return None;
	}
	let path = rng.pick(&cands).clone();
	let mut cur = v;
	for (n, (kind, i)) in path.iter().enumerate() {
		let last = n + 1 == path.len();
		cur = match (cur, kind) {
			(Val::Seq(xs), 0) => &mut xs[*i],
			(Val::Map(m), 1) => &mut m[*i].0,
			(Val::Map(m), 2) => &mut m[*i].1,
			_ => return None,
		};
		if last {
			*cur = planted.clone();
		}
	}
	Some(path.iter().map(|(k, i)| format!("{}{}", ["#", "key", "val"][*k as usize], i)).collect::<Vec<_>>().join("/"))
}

struct Defect {
	to: Fmt,
	planted: Val,
	key_only: bool,
	name: &'static str,
}

fn defects() -> Vec<Defect> {
	let d = |to, planted, key_only, name| Defect { to, planted, key_only, name };
	vec![
		d(Fmt::Json, Val::Null, true, "null key -> JSON"),
		d(Fmt::Json, Val::Seq(vec![Val::Int(1)]), true, "sequence key -> JSON"),
		d(Fmt::Json, Val::Map(vec![(Val::Str("a".into()), Val::Int(1))]), true, "map key -> JSON"),
		d(Fmt::Yaml, Val::Bytes(vec![1, 2, 0xff]), false, "binary -> YAML"),
		d(Fmt::Yaml, Val::Bytes(vec![]), true, "binary key -> YAML"),
		d(Fmt::Toml, Val::Null, false, "null -> TOML"),
		d(Fmt::Toml, Val::Bytes(vec![7]), false, "binary -> TOML"),
		d(Fmt::Toml, Val::Int(i128::from(u64::MAX)), false, "u64 above i64::MAX -> TOML"),
		d(Fmt::Toml, Val::Int(5), true, "integer key -> TOML"),
		d(Fmt::Toml, Val::Null, true, "null key -> TOML"),
		d(Fmt::Toml, Val::Seq(vec![]), true, "sequence key -> TOML"),
	]
}

fn unrepresentable(out: &mut Out, rng: &mut Rng, thorough: bool) {
	let per = if thorough { 120 } else { 12 };
	for defect in defects() {
		for from in ALL_FMTS {
			if from == defect.to {
				continue;
			}
			let mut made = 0;
			let mut attempts = 0;
			while made < per && attempts < per * 30 {
				attempts += 1;
				let mut o = GenOpts::cdm().for_formats(&[from, defect.to]);
				o.max_depth = rng.range(1, 5) as usize;
				o.root_collection = true;
				let mut v = gen_doc(rng, &o);
				if !v.representable(defect.to) {
					continue;
				}
				let Some(path) = plant(&mut v, &defect.planted, defect.key_only, 6, rng) else {
					continue;
				};
				if v.representable(defect.to) || !v.representable(from) || v.has_dup_keys() {
					continue;
				}
				let Some(bytes) = spell(from, &v, &Spelling::random(rng)) else {
					continue;
				};
				// the source crate must read the text back as this document
				match crate::gen::read_docs(from, &bytes) {
					Ok(docs) if docs.len() == 1 && docs[0] == v => {}
					_ => continue,
				}
				made += 1;
				out.count(&format!("unrepresentable.{}.from_{}", defect.name, from.name()));
				for supply in supplies(rng) {
					unrepresentable_case(out, &defect, from, &v, &bytes, &path, &supply);
				}
			}
			if made == 0 {
				out.count(&format!("unrepresentable.not_expressible.{}.from_{}", defect.name, from.name()));
			}
		}
	}
	// xt's own target-side refusal: a non-table root for TOML.
	for from in [Fmt::Json, Fmt::Yaml, Fmt::Msgpack] {
		for v in [Val::Int(1), Val::Seq(vec![Val::Int(1)]), Val::Str("x".into())] {
			let Some(bytes) = spell(from, &v, &Spelling::plain()) else { continue };
			for supply in supplies(rng) {
				let got = translate(&bytes, &supply, Some(from), Fmt::Toml);
				out.eval("toml_root_reason", &format!("{} {} {}", from.name(), supply.describe(), hex(&bytes)), true);
				if !matches!(&got.result, Err(t) if t.contains("root of TOML output must be a table")) {
					out.fail("toml_root_reason", "", format!("{} {} to TOML ({}): {:?}", from.name(), hex(&bytes), supply.describe(), got.result));
				}
			}
		}
	}
}

fn unrepresentable_case(out: &mut Out, defect: &Defect, from: Fmt, v: &Val, bytes: &[u8], path: &str, supply: &Supply) {
	let slice = matches!(supply, Supply::Slice);
	let to = defect.to;
	// The target crate's own reason, without xt. Streaming targets: the
	// value handed to the crate's serializer directly, and the first failure
	// of the reference transcoder over the source crate's deserializer.
	// toml: its `Value` built the way xt builds it for this source and mode.
	let (reason, exact) = if to == Fmt::Toml {
		if from == Fmt::Json && slice {
			// JSON slice input goes through the value path: `toml::Value::try_from(value)`
			match toml::Value::try_from(NodeSer(&node_of(v))) {
				Err(e) => (e.to_string(), true),
				Ok(_) => {
					out.count(&format!("unrepresentable.target_accepts.{}", defect.name));
					return;
				}
			}
		} else {
			match source_run(from, bytes, slice, &mut TomlSink) {
				Err(e) => (e, true),
				Ok(()) => {
					// e.g. serde_yaml hands an integer-looking key to toml as a string
					out.count(&format!("unrepresentable.target_accepts.{}.from_{}", defect.name, from.name()));
					return;
				}
			}
		}
	} else {
		let Some(direct) = target_reason(to, v) else {
			out.count(&format!("unrepresentable.target_accepts.{}", defect.name));
			return;
		};
		let flag = Flag::new();
		let _ = source_run(from, bytes, slice, &mut OracleSink { to, flag: &flag });
		let first = flag.0.borrow().clone();
		if first != Some(First::Ser(direct.clone())) {
			out.fail(
				"reference_transcoder_agrees_with_direct_reason",
				"",
				format!("{} in {} document {}: direct reason {:?}, reference transcoder {:?}", defect.name, from.name(), hex(bytes), direct, first),
			);
		}
		(direct, false)
	};
	// toml's bare reason (no position), via the scripted deserializer, when it
	// refuses the same way
	let bare = if to == Fmt::Toml { target_reason(to, v) } else { None };
	let got = translate(bytes, supply, Some(from), to);
	out.eval("unrepresentable_reason", &format!("{} {} {} {}", defect.name, from.name(), supply.describe(), hex(bytes)), true);
	let describe = |what: &str| {
		format!(
			"{what}: {} at {path} in {} document {} ({}) to {}: xt says {:?}; the {} crate's own reason is {:?}",
			defect.name,
			from.name(),
			hex(bytes),
			supply.describe(),
			to.name(),
			got.result,
			to.name(),
			reason
		)
	};
	match &got.result {
		Ok(()) => out.fail("unrepresentable_is_reported", "", describe("the value was accepted")),
		Err(text) if text.starts_with("PANIC") => out.fail("unrepresentable_no_panic", "", describe("panic")),
		Err(text) => {
			if (exact && text != &reason) || !text.contains(&reason) {
				out.fail("unrepresentable_reason_in_message", defect.name, describe("the target's reason is not in the message"));
			}
			if let Some(bare) = bare {
				if text.contains(&bare) {
					out.count("unrepresentable.toml_bare_reason_found");
				} else {
					out.count("unrepresentable.toml_bare_reason_differs_by_route");
				}
			}
		}
	}
}

// --------------------------------------------------------------------------- (c) writer faults

fn writer_faults(out: &mut Out, rng: &mut Rng, thorough: bool) {
	let docs = if thorough { 40 } else { 5 };
	for from in ALL_FMTS {
		for to in ALL_FMTS {
			let mut made = 0;
			let mut attempts = 0;
			while made < docs && attempts < docs * 20 {
				attempts += 1;
				let mut o = GenOpts::cdm().for_formats(&[from, to]);
				o.max_depth = 3;
				o.max_width = 3;
				o.root_collection = true;
				let v = gen_doc(rng, &o);
				let Some(mut bytes) = spell_checked(from, &v, &Spelling::random(rng)) else {
					continue;
				};
				if from != Fmt::Toml && to != Fmt::Toml && rng.chance(1, 3) {
					let v2 = gen_doc(rng, &o);
					if let Some(b2) = spell_checked(from, &v2, &Spelling::random(rng)) {
						bytes = join_stream(from, &[bytes, b2], rng);
					}
				}
				let reference = translate(&bytes, &Supply::Slice, Some(from), to);
				if !reference.ok() || reference.output.is_empty() || reference.output.len() > 400 {
					continue;
				}
				made += 1;
				out.count(&format!("writer_fault.docs.{}_to_{}", from.name(), to.name()));
				let total = reference.output.len();
				for supply in supplies(rng) {
					for k in 0..total {
						let got = translate_fault(&bytes, &supply, from, to, k);
						out.eval("writer_fault_reported", &format!("{} {} {} {k} {}", from.name(), to.name(), supply.describe(), hex(&bytes)), true);
						let verdict = match &got {
							Ok(()) => Err("the translation succeeded"),
							Err((text, _)) if text.contains(WRITE_FAULT_TEXT) => Ok("writer_fault.cause_in_message"),
							Err((text, chain)) => {
								// The serializer's own error must be named; if its
								// Display leaves out the I/O error it wraps, that
								// error must at least be in the source() chain.
								let writer_at = chain.iter().position(|c| c.contains(WRITE_FAULT_TEXT));
								match writer_at {
									Some(i) if i > 0 && chain[..i].iter().any(|c| !c.contains(WRITE_FAULT_TEXT) && text.contains(c.as_str())) => {
										Ok("writer_fault.serializer_reason_in_message_cause_in_source_chain")
									}
									_ => Err("neither the writer's error text nor a serializer error wrapping it is named"),
								}
							}
						};
						match verdict {
							Ok(counter) => out.count(&format!("{counter}.{}", to.name())),
							Err(what) => out.fail(
								"writer_fault_reported",
								"",
								format!(
									"{what}: {} document {} ({}) to {} with a writer failing from byte {k} of {total} (byte 0x{:02x} of the fault-free output {}): {:?}",
									from.name(),
									hex(&bytes),
									supply.describe(),
									to.name(),
									reference.output[k],
									hex(&reference.output),
									got
								),
							),
						}
					}
				}
			}
		}
	}
}

pub fn run(out: &mut Out, rng: &mut Rng, thorough: bool) {
	syntax_errors(out, rng, thorough);
	unrepresentable(out, rng, thorough);
	writer_faults(out, rng, thorough);
}

fn line_col_pairs(msg: &str) -> Vec<(u64, u64)> {
	let mut v = vec![];
	let mut rest = msg;
	while let Some(i) = rest.find("line ") {
		rest = &rest[i + 5..];
		let l: String = rest.chars().take_while(|c| c.is_ascii_digit()).collect();
		let after = &rest[l.len()..];
		if let Some(stripped) = after.strip_prefix(" column ") {
			let c: String = stripped.chars().take_while(|c| c.is_ascii_digit()).collect();
			if let (Ok(l), Ok(c)) = (l.parse(), c.parse()) {
				v.push((l, c));
			}
		}
	}
	v
}

/// For a YAML syntax error in the FIRST document of a stream, the positions
/// (every `line L column C` of the parser's message: the problem's and the
/// context's) reported through a reader are those reported for a slice — both
/// come from libyaml's marks for the same text.
pub fn yaml_error_positions(out: &mut Out, rng: &mut Rng, thorough: bool) {
	let mut inputs: Vec<Vec<u8>> = [
		&b"a: [1, 2\nb: 3\n"[..],
		b"a: {x: 1\nb: 3\n",
		b"a: \"unterminated\n",
		b"a: *\n",
		b"k: [a, b\n",
		b"a:\n  - x\n  y: 1\n",
		b"a: !<tag x\n",
		b"\"a\\q\": 1\n",
		b"- [1, {a: 2\n- x\n",
		b"key: 'abc\nnext: 1\n",
		b"a: 1\n b: 2\n",
		b"? [a\n: 1\n",
	]
	.iter()
	.map(|b| b.to_vec())
	.collect();
	for _ in 0..(if thorough { 600 } else { 80 }) {
		let v = crate::gen::gen_doc(rng, &crate::gen::GenOpts::cdm().for_formats(&[Fmt::Yaml]));
		if let Some(text) = crate::gen::spell(Fmt::Yaml, &v, &crate::gen::Spelling::random(rng)) {
			if text.len() > 3 {
				let cut = rng.range(1, text.len() as u64 - 1) as usize;
				inputs.push(text[..cut].to_vec());
				inputs.push(crate::gen::mutate(&text, rng));
			}
		}
	}
	for input in &inputs {
		if std::str::from_utf8(input).is_err() {
			continue;
		}
		let slice = translate(input, &Supply::Slice, Some(Fmt::Yaml), Fmt::Json);
		for supply in [Supply::Reader(vec![]), Supply::Reader(vec![1]), Supply::Reader(vec![5, 3])] {
			let reader = translate(input, &supply, Some(Fmt::Yaml), Fmt::Json);
			let (Err(ms), Err(mr)) = (&slice.result, &reader.result) else { continue };
			let (ps, pr) = (line_col_pairs(ms), line_col_pairs(mr));
			// Only errors libyaml itself reports in the first document carry
			// comparable marks on both paths.
			if ps.is_empty() || ps.len() != pr.len() || !slice.output.is_empty() || !reader.output.is_empty() {
				continue;
			}
			out.eval("yaml_error_positions", &format!("{}{}", hex(input), supply.describe()), true);
			if ps != pr {
				out.fail(
					"yaml_error_positions",
					"",
					format!("YAML input {:?}: through {} the error is {:?} but for a slice it is {:?} — the positions differ", String::from_utf8_lossy(input), supply.describe(), mr, ms),
				);
			}
		}
	}
}
