//! C04 at the level of xt's API and binaries: every translation terminates
//! with success or an error value — no panic, abort, stack overflow or hang.

use std::time::Duration;

use crate::corpus;
use crate::out::Out;
use crate::procs::{self, Status};
use crate::util::{hex, Rng};
use crate::xtapi::{translate, Fmt, Supply, ALL_FMTS};

fn rep(piece: &[u8], n: usize) -> Vec<u8> {
	let mut v = Vec::with_capacity(piece.len() * n);
	for _ in 0..n {
		v.extend_from_slice(piece);
	}
	v
}

fn cat(parts: &[&[u8]]) -> Vec<u8> {
	parts.concat()
}

/// Adversarial shapes: (label, source format, bytes).
pub fn adversarial(depths: &[usize]) -> Vec<(String, Fmt, Vec<u8>)> {
	let mut v: Vec<(String, Fmt, Vec<u8>)> = vec![];
	for &n in depths {
		v.push((format!("json.arrays.{n}"), Fmt::Json, cat(&[&rep(b"[", n), b"1", &rep(b"]", n)])));
		v.push((format!("json.objects.{n}"), Fmt::Json, cat(&[&rep(b"{\"a\":", n), b"1", &rep(b"}", n)])));
		v.push((format!("json.unclosed.{n}"), Fmt::Json, rep(b"[", n)));
		v.push((format!("json.mixed.{n}"), Fmt::Json, cat(&[&rep(b"[{\"a\":", n / 2), b"1", &rep(b"}]", n / 2)])));
		v.push((format!("yaml.flowseq.{n}"), Fmt::Yaml, cat(&[&rep(b"[", n), b"1", &rep(b"]", n), b"\n"])));
		// libyaml's handling of nested flow mappings is quadratic in the depth
		// (measured: 4x time per doubling, 2.5 s at 20 000 in the release
		// binary) — slow, not a hang; deeper instances are not generated.
		if n <= 20_000 {
			v.push((format!("yaml.flowmap.{n}"), Fmt::Yaml, cat(&[&rep(b"{a: ", n), b"1", &rep(b"}", n), b"\n"])));
		}
		v.push((format!("yaml.blockseq.{n}"), Fmt::Yaml, cat(&[&rep(b"- ", n), b"1\n"])));
		v.push((format!("yaml.unclosed.{n}"), Fmt::Yaml, rep(b"[", n)));
		v.push((format!("toml.arrays.{n}"), Fmt::Toml, cat(&[b"a = ", &rep(b"[", n), b"1", &rep(b"]", n), b"\n"])));
		v.push((format!("toml.inline.{n}"), Fmt::Toml, cat(&[b"a = ", &rep(b"{a = ", n), b"1", &rep(b"}", n), b"\n"])));
		let dotted = cat(&[b"[", &rep(b"a.", n), b"a]\nb = 1\n"]);
		v.push((format!("toml.dotted.{n}"), Fmt::Toml, dotted));
		v.push((format!("msgpack.arrays.{n}"), Fmt::Msgpack, cat(&[&rep(b"\x91", n), b"\x01"])));
		v.push((format!("msgpack.maps.{n}"), Fmt::Msgpack, cat(&[&rep(b"\x81\xa1a", n), b"\x01"])));
		v.push((format!("msgpack.keynest.{n}"), Fmt::Msgpack, cat(&[&rep(b"\x81", n), b"\x01", &rep(b"\x01", n)])));
		v.push((format!("msgpack.unclosed.{n}"), Fmt::Msgpack, rep(b"\x92", n)));
		// the same nesting through headers wider than needed
		v.push((format!("msgpack.array16.{n}"), Fmt::Msgpack, cat(&[&rep(b"\xdc\x00\x01", n), b"\x01"])));
		v.push((format!("msgpack.array32.{n}"), Fmt::Msgpack, cat(&[&rep(b"\xdd\x00\x00\x00\x01", n), b"\x01"])));
		v.push((format!("msgpack.map16.{n}"), Fmt::Msgpack, cat(&[&rep(b"\xde\x00\x01\xa1a", n), b"\x01"])));
		v.push((format!("msgpack.map32.{n}"), Fmt::Msgpack, cat(&[&rep(b"\xdf\x00\x00\x00\x01\xa1a", n), b"\x01"])));
		v.push((format!("msgpack.map32key.{n}"), Fmt::Msgpack, cat(&[&rep(b"\xdf\x00\x00\x00\x01", n), b"\x01", &rep(b"\x01", n)])));
	}
	// Huge declared lengths.
	for (name, b) in [
		("array32", &b"\xdd\xff\xff\xff\xff"[..]),
		("map32", b"\xdf\xff\xff\xff\xff"),
		("str32", b"\xdb\xff\xff\xff\xffabc"),
		("bin32", b"\xc6\xff\xff\xff\xff\x00"),
		("ext32", b"\xc9\xff\xff\xff\xff\x01\x00"),
		("array32_in_array", b"\x91\xdd\xff\xff\xff\xff\x01"),
		("array16_max", b"\xdc\xff\xff\x01"),
		("str16_trunc", b"\xda\xff\xff"),
		("ext16_max", b"\xc8\xff\xff"),
		("ext16_max_typed", b"\xc8\xff\xff\x01ab"),
		("ext16_fffc", b"\xc8\xff\xfc\x01"),
		("ext8_max", b"\xc7\xff\x01"),
		("bin16_max", b"\xc5\xff\xff"),
		("bin8_max", b"\xc4\xff"),
		("str8_max", b"\xd9\xff"),
		("ext32_small", b"\xc9\x00\x00\x00\x01\x05\x00"),
		("ext_in_array", b"\x92\xc8\xff\xff\x01"),
	] {
		v.push((format!("msgpack.huge.{name}"), Fmt::Msgpack, b.to_vec()));
	}
	// Alias bombs, lone anchors, unknown aliases.
	let mut bomb = String::from("a0: &a0 [x, x, x, x, x, x, x, x, x]\n");
	for i in 1..12 {
		let p = i - 1;
		bomb.push_str(&format!("a{i}: &a{i} [*a{p}, *a{p}, *a{p}, *a{p}, *a{p}, *a{p}, *a{p}, *a{p}, *a{p}]\n"));
	}
	v.push(("yaml.alias_bomb".into(), Fmt::Yaml, bomb.into_bytes()));
	for (name, b) in [
		("lone_anchor", &b"&a"[..]),
		("lone_anchor_nl", b"&a\n"),
		("unknown_alias", b"*y\n"),
		("unknown_alias_in_map", b"a: *y\n"),
		("self_alias", b"&a [*a]\n"),
		("merge_key", b"a: &x {k: 1}\nb:\n  <<: *x\n"),
		("tag_bomb", b"!!binary |\n  AAAA\n"),
		("empty", b""),
		("only_dashes", b"---\n---\n---\n"),
	] {
		v.push((format!("yaml.{name}"), Fmt::Yaml, b.to_vec()));
	}
	v
}

pub fn run(out: &mut Out, rng: &mut Rng, thorough: bool) {
	// 1. In-process, under catch_unwind: the shared corpus and moderately deep
	//    documents, all source selections x targets x supplies.
	let items = corpus::build(rng, if thorough { 120 } else { 20 }, thorough);
	for item in &items {
		let froms: Vec<Option<Fmt>> = if thorough {
			vec![None, Some(Fmt::Json), Some(Fmt::Msgpack), Some(Fmt::Toml), Some(Fmt::Yaml)]
		} else {
			vec![None, Some(*rng.pick(&ALL_FMTS)), Some(*rng.pick(&ALL_FMTS))]
		};
		for from in froms {
			let tos: Vec<Fmt> = if thorough { ALL_FMTS.to_vec() } else { vec![*rng.pick(&ALL_FMTS), *rng.pick(&ALL_FMTS)] };
			for to in tos {
				for supply in [Supply::Slice, Supply::Reader(vec![rng.range(1, 9) as usize])] {
					let got = translate(&item.bytes, &supply, from, to);
					out.eval("no_panic", &format!("{}{:?}{}{}", hex(&item.bytes), from.map(Fmt::name), to.name(), supply.describe()), got.ok());
					if matches!(&got.result, Err(e) if e.starts_with("PANIC")) {
						out.fail(
							"no_panic",
							"",
							format!("[{}] input {} from={} to={} {}: {}", item.label, hex(&item.bytes), from.map(Fmt::name).unwrap_or("detect"), to.name(), supply.describe(), got.describe()),
						);
					}
				}
			}
		}
	}
	// In-process windows around each format's limit (safe depths only).
	for (label, from, bytes) in adversarial(&[64, 126, 127, 128, 129, 200]) {
		for to in ALL_FMTS {
			for supply in [Supply::Slice, Supply::Reader(vec![7])] {
				for f in [Some(from), None] {
					let got = translate(&bytes, &supply, f, to);
					out.eval("no_panic", &format!("{label}{:?}{}{}", f.map(Fmt::name), to.name(), supply.describe()), got.ok());
					if matches!(&got.result, Err(e) if e.starts_with("PANIC")) {
						out.fail("no_panic", "", format!("[{label}] from={:?} to={} {}: {}", f.map(Fmt::name), to.name(), supply.describe(), got.describe()));
					}
				}
			}
		}
	}

	// 2. The real binaries (crash-isolated by being separate processes), on
	//    their default main-thread stack: adversarial shapes far beyond every limit.
	let depths: Vec<usize> = if thorough { vec![1_000, 1_023, 1_024, 1_025, 10_000, 100_000, 1_000_000] } else { vec![1_024, 20_000, 200_000] };
	let dir = procs::scratch_dir("c04");
	let shapes = adversarial(&depths);
	for release in [false, true] {
		let Some(bin) = procs::bin(release) else {
			out.count("binary.missing");
			continue;
		};
		for (label, from, bytes) in &shapes {
			let path = format!("{dir}/in.{}", from.name());
			std::fs::write(&path, bytes).expect("write scratch input");
			let tos: Vec<Fmt> = if thorough { ALL_FMTS.to_vec() } else { vec![*rng.pick(&ALL_FMTS)] };
			for to in tos {
				for via_stdin in [false, true] {
					for explicit in [true, false] {
						if !thorough && !explicit && via_stdin {
							continue;
						}
						let mut args = vec![format!("-t{}", to.letter())];
						if explicit {
							args.push(format!("-f{}", from.letter()));
						}
						if !via_stdin {
							// A name without a known extension, so that -f / detection decides.
							let plain = format!("{dir}/in.dat");
							let _ = std::fs::copy(&path, &plain);
							args.push(plain);
						}
						let r = procs::run(&bin, &args, if via_stdin { Some(bytes) } else { None }, Duration::from_secs(120));
						out.eval("binary_survives", &format!("{label}{release}{}{via_stdin}{explicit}", to.name()), true);
						out.count(&format!("binary.status.{:?}", match &r.status { Status::Exit(c) => format!("exit{c}"), s => format!("{s:?}") }));
						if !matches!(r.status, Status::Exit(0) | Status::Exit(1)) {
							out.fail(
								"binary_survives",
								"",
								format!(
									"[{label}] {} xt {} ({} bytes via {}): wait status {:?}, stderr {:?}",
									if release { "release" } else { "debug" },
									args.join(" "),
									bytes.len(),
									if via_stdin { "stdin" } else { "file" },
									r.status,
									String::from_utf8_lossy(&r.stderr).chars().take(200).collect::<String>()
								),
							);
						}
					}
				}
			}
		}
	}
	// 3. Error paths while standard ERROR itself cannot be written (full
	//    device, reader gone): xt still exits with a status, never dies of a
	//    signal (a failed diagnostic must not become a panic/abort).
	let bad_json = format!("{dir}/bad.json");
	let undetectable = format!("{dir}/undetectable");
	let null_key = format!("{dir}/nullkey.yaml");
	let good = format!("{dir}/good.json");
	let _ = std::fs::create_dir_all(&dir);
	let _ = std::fs::write(&bad_json, b"{\"a\": [1, 2");
	let _ = std::fs::write(&undetectable, b"\x00\x01\x02");
	let _ = std::fs::write(&null_key, b"? ~\n: 1\n");
	let _ = std::fs::write(&good, b"{\"a\":1}\n");
	let scenarios: Vec<Vec<String>> = vec![
		vec![bad_json.clone()],
		vec![undetectable.clone()],
		vec!["-tj".into(), null_key.clone()],
		vec![format!("{dir}/missing.json")],
		vec![good.clone(), "-".into(), "-".into()],
		vec!["-tt".into(), good.clone(), good.clone()],
		vec!["--no-such-option".into()],
		vec!["-t".into(), "nonsense".into()],
	];
	for release in [false, true] {
		let Some(bin) = procs::bin(release) else { continue };
		for args in &scenarios {
			for (name, sink) in [("/dev/full", procs::Sink::DevFull), ("a pipe whose reader is gone", procs::Sink::ClosedPipe)] {
				let st = procs::run_stderr_sink(&bin, args, sink, Duration::from_secs(30));
				out.eval("stderr_fault_no_signal", &format!("{release}{args:?}{name}"), true);
				if !matches!(st, Status::Exit(1) | Status::Exit(2)) {
					out.fail(
						"stderr_fault_no_signal",
						"",
						format!("{} xt {} with standard error on {name}: wait status {st:?} — expected exit 1 or 2", if release { "release" } else { "debug" }, args.join(" ")),
					);
				}
			}
		}
	}
	let _ = std::fs::remove_dir_all(&dir);
}
