//! C16 on the real binary: broken pipes and other write errors.
//!
//! A consumer reads exactly k bytes of standard output and closes the pipe
//! (k from 0 to several pipe capacities) while more than a pipe capacity of
//! output remains; all targets, file and stdin input, one and many inputs (so
//! that the failing write is met inside a serializer's write, in a flush of
//! the full buffer, and in the per-input flush).  Statement: the wait status
//! is death by signal 13, standard error is empty, and the k bytes the
//! consumer took are the first k bytes of the library's output.
//! `/dev/full` with outputs below and above the 8 KiB buffer: status 1 with one
//! `xt error` line (whether it carries the device's error text is counted, not required).
//! Plus the real `pipecheck::Writer`, method by method, in a forked child.

use crate::engines::cli::{self, expected, fifo, json_array, json_object, json_stream, msgpack_of, pipecheck_table, regular, run_cases, spec_of, yaml_seq, Operand, Planner, RunSpec, Status, StdoutMode};
use crate::out::Out;
use crate::util::Rng;
use crate::xtapi::{Fmt, ALL_FMTS};

/// Linux's default pipe capacity.
const PIPE_CAPACITY: usize = 65536;

fn describe(o: &cli::Observed) -> String {
	format!("status {} stdout {} stderr {:?}", o.status.token(), cli::digest(&o.stdout), String::from_utf8_lossy(&o.stderr))
}

/// Inputs whose translation to `to` is large; `many` spreads it over several inputs.
fn large_inputs(rng: &mut Rng, to: Fmt, many: bool, use_stdin: bool, records: usize) -> (Vec<Operand>, Vec<u8>) {
	let mut ops = vec![];
	let mut stdin = vec![];
	let n_inputs = if many && to != Fmt::Toml { rng.range(3, 6) as usize } else { 1 };
	let per = records / n_inputs + 1;
	for i in 0..n_inputs {
		let data = if to == Fmt::Toml { json_object(per) } else if rng.chance(1, 2) { json_array(per) } else { json_stream(per) };
		if use_stdin && i == 0 {
			stdin = data;
			ops.push(Operand::stdin());
		} else {
			match rng.below(4) {
				0 if to != Fmt::Toml => ops.push(regular(&format!("big{i}.yaml"), yaml_seq(per))),
				1 if to != Fmt::Toml => ops.push(regular(&format!("big{i}.msgpack"), msgpack_of(&json_array(per)))),
				2 => ops.push(fifo(&format!("big{i}.json"), data)),
				_ => ops.push(regular(&format!("big{i}.json"), data)),
			}
		}
	}
	(ops, stdin)
}

pub fn run(out: &mut Out, rng: &mut Rng, thorough: bool) {
	let version = cli::version_string();
	let mut planner = Planner::new();
	pipecheck_table(out);

	struct Case {
		spec: RunSpec,
		ops: Vec<Operand>,
		to: Fmt,
	}

	// --- the consumer goes away after k bytes
	let mut ks: Vec<usize> = vec![0, 1, 4096, 8191, 8192, 8193, PIPE_CAPACITY - 1, PIPE_CAPACITY, PIPE_CAPACITY + 1, 2 * PIPE_CAPACITY + 7];
	if thorough {
		ks.extend([2, 100, 1024, 16384, 40000, 3 * PIPE_CAPACITY, 3 * PIPE_CAPACITY + 4097]);
	}
	let mut cases: Vec<Case> = vec![];
	for to in ALL_FMTS {
		for &k in &ks {
			for many in [false, true] {
				for use_stdin in [false, true] {
					if !thorough && rng.chance(1, 2) {
						continue;
					}
					// enough records that more than two pipe capacities remain after k bytes
					let need = k + 3 * PIPE_CAPACITY;
					let records = need / 400 + 30;
					let (ops, stdin) = large_inputs(rng, to, many, use_stdin, records);
					let opts = vec![format!("-t{}", to.letter())];
					cases.push(Case { spec: spec_of(&opts, &ops, &stdin, StdoutMode::ClosingPipe(k), rng.chance(1, 4)), ops, to });
				}
			}
		}
	}
	let specs: Vec<RunSpec> = cases.iter().map(|c| c.spec.clone()).collect();
	let results = run_cases(out, &mut planner, &version, &specs);
	for (r, c) in results.iter().zip(&cases) {
		let k = match r.spec.out {
			StdoutMode::ClosingPipe(k) => k,
			_ => 0,
		};
		let exp = expected(&c.ops, &r.spec.stdin, None, c.to);
		let all = exp.all_complete();
		let applicable = exp.failure.is_none() && all.len() > k + PIPE_CAPACITY;
		out.eval("consumer_leaves_sigpipe", &r.spec.describe(), applicable);
		if !applicable {
			out.count("c16.closing_pipe.not_applicable");
			continue;
		}
		let o = &r.observed;
		if o.status != Status::Signal(13) || !o.stderr.is_empty() || o.stdout != all[..k] {
			out.fail(
				"consumer_leaves_sigpipe",
				"",
				format!(
					"the consumer closed standard output after {k} of {} bytes: expected death by SIGPIPE, empty stderr, and the first {k} bytes delivered: {} => {}",
					all.len(),
					r.spec.describe(),
					describe(o)
				),
			);
		}
		out.count(if c.ops.len() > 1 { "c16.closing_pipe.many_inputs" } else { "c16.closing_pipe.one_input" });
	}

	// --- /dev/full
	let mut cases: Vec<Case> = vec![];
	let sizes: Vec<usize> = if thorough { vec![0, 1, 2, 10, 16, 17, 18, 19, 40, 200] } else { vec![0, 1, 10, 17, 18, 100] };
	for to in ALL_FMTS {
		for &records in &sizes {
			for many in [false, true] {
				for use_stdin in [false, true] {
					let (ops, stdin) = large_inputs(rng, to, many, use_stdin, records);
					let opts = vec![format!("-t{}", to.letter())];
					cases.push(Case { spec: spec_of(&opts, &ops, &stdin, StdoutMode::DevFull, rng.chance(1, 4)), ops, to });
				}
			}
		}
	}
	let specs: Vec<RunSpec> = cases.iter().map(|c| c.spec.clone()).collect();
	let results = run_cases(out, &mut planner, &version, &specs);
	for (r, c) in results.iter().zip(&cases) {
		let exp = expected(&c.ops, &r.spec.stdin, None, c.to);
		let applicable = exp.failure.is_none() && !exp.all_complete().is_empty();
		out.eval("device_full_status_1", &r.spec.describe(), applicable);
		if !applicable {
			continue;
		}
		let o = &r.observed;
		let stderr = String::from_utf8_lossy(&o.stderr).into_owned();
		out.count(if stderr.contains("No space left on device") { "c16.devfull.message_carries_device_error" } else { "c16.devfull.message_without_device_error" });
		if o.status != Status::Exit(1) || !stderr.starts_with("xt error") || stderr.lines().count() != 1 || !o.stdout.is_empty() {
			out.fail(
				"device_full_status_1",
				"",
				format!("standard output is /dev/full and the library writes {} bytes: expected status 1 and one `xt error` line: {} => {}", exp.all_complete().len(), r.spec.describe(), describe(o)),
			);
		}
		out.count(if exp.all_complete().len() >= 8192 { "c16.devfull.output_above_8k" } else { "c16.devfull.output_below_8k" });
	}
}
