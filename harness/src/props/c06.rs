//! C06 at the level of xt's API: xt's output is a fixed point of xt, and
//! A→B→A equals A→A for documents inside the common data model.

use crate::gen::{f64v, gen_doc, read_docs, spell, GenOpts, Spelling, Val};
use crate::out::Out;
use crate::util::{hex, Rng};
use crate::xtapi::{random_supply, translate, Fmt, Supply, ALL_FMTS};

/// Extensions beyond the common model that some pairs support.
fn extension_docs() -> Vec<Val> {
	let s = |x: &str| Val::Str(x.to_string());
	vec![
		Val::Map(vec![(s("n"), Val::Null)]),
		Val::Seq(vec![Val::Null, Val::Bool(true)]),
		Val::Map(vec![(Val::Int(1), s("int key")), (Val::Bool(true), s("bool key")), (Val::Null, s("null key"))]),
		Val::Map(vec![(Val::Seq(vec![Val::Int(1)]), s("seq key"))]),
		Val::Map(vec![(s("b"), Val::Bytes(vec![0, 1, 2, 255]))]),
		Val::Map(vec![(s("inf"), f64v(f64::INFINITY)), (s("ninf"), f64v(f64::NEG_INFINITY)), (s("nan"), f64v(f64::NAN))]),
		Val::Map(vec![(s("f"), Val::F32(0.1f32.to_bits())), (s("g"), Val::F32(16777216.0f32.to_bits()))]),
		Val::Seq(vec![Val::F32(1.5f32.to_bits()), Val::F32(f32::MAX.to_bits()), Val::F32(f32::MIN_POSITIVE.to_bits())]),
		Val::Map(vec![(s("big"), Val::Int(18446744073709551615))]),
		Val::Map(vec![(s("neg"), Val::Int(-9223372036854775808))]),
	]
}

fn fixed_point(out: &mut Out, rng: &mut Rng, what: &str, a: Fmt, b: Fmt, input: &[u8]) -> Option<Vec<u8>> {
	// both supply modes at the first hop too (the second one with fewer
	// second-hop variants, for time)
	let by_slice = fixed_point_from(out, rng, what, a, b, input, &Supply::Slice);
	fixed_point_from(out, rng, what, a, b, input, &Supply::Reader(vec![]));
	by_slice
}

fn fixed_point_from(out: &mut Out, rng: &mut Rng, what: &str, a: Fmt, b: Fmt, input: &[u8], first_supply: &Supply) -> Option<Vec<u8>> {
	let first = translate(input, first_supply, Some(a), b);
	if !first.ok() {
		out.count("first_hop.refused");
		return None;
	}
	let seconds = if matches!(first_supply, Supply::Slice) { vec![Supply::Slice, Supply::Reader(vec![]), random_supply(rng)] } else { vec![Supply::Slice, random_supply(rng)] };
	for supply in seconds {
		let again = translate(&first.output, &supply, Some(b), b);
		out.eval("fixed_point", &format!("{}{}{}{}", a.name(), b.name(), supply.describe(), hex(input)), !first.output.is_empty());
		if !again.ok() || again.output != first.output {
			// TOML: the three-pass order of the toml crate is not idempotent in
			// general; recognise known finding K4 by comparing values.
			let magic = b"$__toml_private_datetime";
			let has_magic = input.windows(magic.len()).any(|w| w == magic);
			let class = if has_magic {
				// K11: only the SLICE path of JSON → TOML writes the private key as a
				// table (anything else about that key is not a known finding; the
				// value reader used for K4 below cannot tell the two spellings apart)
				if b == Fmt::Toml && a == Fmt::Json && matches!(first_supply, Supply::Slice) {
					"K11-json-toml-datetime-key"
				} else {
					""
				}
			} else if b == Fmt::Toml {
				match (read_docs(Fmt::Toml, &first.output), read_docs(Fmt::Toml, &again.output)) {
					(Ok(x), Ok(y)) if again.ok() && x.len() == 1 && y.len() == 1 && x[0].toml_written_order() == y[0] => "K4-toml-three-groups",
					_ => "",
				}
			} else {
				""
			};
			out.fail(
				"fixed_point",
				class,
				format!(
					"[{what}] {}→{} of {} ({}) gives {}, but translating that output {}→{} ({}) gives {}",
					a.name(),
					b.name(),
					hex(input),
					first_supply.describe(),
					hex(&first.output),
					b.name(),
					b.name(),
					supply.describe(),
					again.describe()
				),
			);
		}
	}
	Some(first.output)
}

fn there_and_back(out: &mut Out, rng: &mut Rng, v: &Val, a: Fmt, b: Fmt, input: &[u8]) {
	let direct = translate(input, &Supply::Slice, Some(a), a);
	let hop1 = translate(input, &random_supply(rng), Some(a), b);
	if !direct.ok() || !hop1.ok() {
		out.count("there_and_back.refused");
		return;
	}
	let hop2 = translate(&hop1.output, &random_supply(rng), Some(b), a);
	out.eval("there_and_back", &format!("{}{}{}", a.name(), b.name(), hex(input)), true);
	let ok = if !hop2.ok() {
		false
	} else if b == Fmt::Toml || a == Fmt::Toml {
		// Up to TOML's table reordering: compare values.
		match (read_docs(a, &hop2.output), read_docs(a, &direct.output)) {
			(Ok(x), Ok(y)) if x.len() == 1 && y.len() == 1 => x[0] == y[0].toml_reorder() || x[0].toml_reorder() == y[0].toml_reorder(),
			_ => false,
		}
	} else {
		hop2.output == direct.output
	};
	if !ok {
		let class = if (b == Fmt::Toml || a == Fmt::Toml) && hop2.ok() {
			match (read_docs(a, &hop2.output), read_docs(a, &direct.output)) {
				(Ok(x), Ok(y)) if x.len() == 1 && y.len() == 1 && (x[0] == y[0].toml_written_order() || x[0] == y[0].toml_written_order().toml_written_order()) => {
					"K4-toml-three-groups"
				}
				_ => "",
			}
		} else {
			""
		};
		out.fail(
			"there_and_back",
			class,
			format!(
				"value {} as {} {}: {}→{}→{} gives {} but {}→{} gives {} (intermediate {})",
				v.short(),
				a.name(),
				hex(input),
				a.name(),
				b.name(),
				a.name(),
				hop2.describe(),
				a.name(),
				a.name(),
				direct.describe(),
				hex(&hop1.output)
			),
		);
	}
}

pub fn run(out: &mut Out, rng: &mut Rng, thorough: bool) {
	let n = if thorough { 2500 } else { 250 };
	for i in 0..n {
		for &a in &ALL_FMTS {
			for &b in &ALL_FMTS {
				// Common model for the pair.
				let opts = GenOpts::cdm().for_formats(&[a, b]);
				let v = gen_doc(rng, &opts);
				if !v.representable(a) || !v.representable(b) {
					continue;
				}
				let sp = if i % 2 == 0 { Spelling::plain() } else { Spelling::random(rng) };
				let Some(input) = spell(a, &v, &sp) else { continue };
				out.count(&format!("pair.{}->{}", a.name(), b.name()));
				fixed_point(out, rng, "cdm", a, b, &input);
				there_and_back(out, rng, &v, a, b, &input);
			}
		}
	}
	// Extensions each pair supports: whatever xt can translate must be a fixed point.
	let mut ext = extension_docs();
	let mut o = GenOpts::cdm();
	o.nonfinite = true;
	o.f32s = true;
	o.bytes = true;
	o.nonstring_keys = true;
	for _ in 0..(if thorough { 400 } else { 60 }) {
		ext.push(gen_doc(rng, &o));
	}
	for v in &ext {
		for &a in &[Fmt::Msgpack, Fmt::Yaml, Fmt::Json, Fmt::Toml] {
			let Some(input) = spell(a, v, &Spelling::plain()) else { continue };
			for &b in &ALL_FMTS {
				out.count("extension.tried");
				fixed_point(out, rng, "extension", a, b, &input);
			}
		}
	}
	// TOML date-times (an extension of the TOML pairs), and the way they travel
	// through the other formats: the toml crate's private key.
	let raw: Vec<(Fmt, &[u8])> = vec![
		(Fmt::Toml, b"d = 1979-05-27T07:32:00Z\nl = 1979-05-27\nt = 07:32:00\n\n[x]\nodt = 1979-05-27T00:32:00.999-07:00\nldt = 1979-05-27T07:32:00\n"),
		(Fmt::Toml, b"ds = [1979-05-27, 2000-01-01]\n"),
		(Fmt::Json, b"{\"d\":{\"$__toml_private_datetime\":\"1979-05-27T07:32:00Z\"},\"e\":1}\n"),
		(Fmt::Yaml, b"d:\n  $__toml_private_datetime: 1979-05-27T07:32:00Z\ne: 1\n"),
		(Fmt::Msgpack, b"\x81\xa1d\x81\xb8$__toml_private_datetime\xb41979-05-27T07:32:00Z"),
	];
	for (a, input) in raw {
		for &b in &ALL_FMTS {
			out.count("datetime.tried");
			fixed_point(out, rng, "toml-datetime", a, b, input);
		}
	}
	// Wide documents: hundreds to thousands of collections in ONE document.
	for n in [400usize, 600, 2000] {
		let v = Val::Seq(
			(0..n)
				.map(|i| Val::Map(vec![(Val::Str("id".into()), Val::Int(i as i128)), (Val::Str("tags".into()), Val::Seq(vec![]))]))
				.collect(),
		);
		for &a in &[Fmt::Json, Fmt::Msgpack, Fmt::Yaml] {
			let Some(input) = spell(a, &v, &Spelling::plain()) else { continue };
			for &b in &[Fmt::Json, Fmt::Msgpack, Fmt::Yaml] {
				out.count("wide.tried");
				fixed_point(out, rng, "wide", a, b, &input);
				there_and_back(out, rng, &v, a, b, &input);
			}
		}
	}
	// Collections wider than any preallocation cap, and past the 16-bit header.
	for n in [4096usize, 4097, 5000, 32768, 40000, 65535, 65536] {
		let arr = Val::Seq((0..n).map(|i| Val::Int((i % 9) as i128)).collect());
		let map = Val::Map((0..n).map(|i| (Val::Str(format!("k{i}")), Val::Int(1))).collect());
		for v in [arr, map] {
			for &a in &[Fmt::Json, Fmt::Msgpack] {
				let Some(input) = spell(a, &v, &Spelling::plain()) else { continue };
				for &b in &[Fmt::Json, Fmt::Msgpack] {
					out.count("sizes.tried");
					fixed_point(out, rng, "size-boundary", a, b, &input);
					there_and_back(out, rng, &v, a, b, &input);
				}
			}
		}
	}
	// Past 2^20 elements, MessagePack and JSON only.
	{
		let n = (1usize << 20) + 1;
		let arr = Val::Seq((0..n).map(|i| Val::Int((i % 9) as i128)).collect());
		for &a in &[Fmt::Msgpack, Fmt::Json] {
			let Some(input) = spell(a, &arr, &Spelling::plain()) else { continue };
			for &b in &[Fmt::Msgpack, Fmt::Json] {
				out.count("sizes.beyond_2_pow_20");
				fixed_point(out, rng, "size-2^20", a, b, &input);
				there_and_back(out, rng, &arr, a, b, &input);
			}
		}
	}
	// Large non-ASCII documents (tens of KiB of 2-, 3- and 4-byte characters at
	// every alignment relative to 8 KiB / 16 KiB read boundaries).
	for pad in 0..4usize {
		for ch in ["é", "€", "😀", "日本"] {
			let text: String = std::iter::repeat(ch).take(45_000 / ch.len()).collect();
			let v = Val::Map(vec![(Val::Str("p".into()), Val::Str("x".repeat(pad))), (Val::Str("t".into()), Val::Str(text))]);
			for &a in &[Fmt::Json, Fmt::Yaml] {
				let Some(input) = spell(a, &v, &Spelling::plain()) else { continue };
				for &b in &[Fmt::Yaml, Fmt::Json, Fmt::Msgpack] {
					out.count("bigtext.tried");
					fixed_point(out, rng, "big-multibyte", a, b, &input);
					there_and_back(out, rng, &v, a, b, &input);
				}
			}
		}
	}
	// TOML date-times (a TOML-only extension).
	let toml_dt = b"d = 1979-05-27T07:32:00Z\nl = 1979-05-27T07:32:00\nday = 1979-05-27\nt = 07:32:00\n[s]\nx = [1979-05-27, 07:32:00]\n";
	for &b in &ALL_FMTS {
		fixed_point(out, rng, "toml-datetime", Fmt::Toml, b, toml_dt);
	}
}
