//! C01 at the level of xt's API: the output, read by the target format's own
//! reader, denotes the same value as the input.

use crate::gen::{gen_deep, gen_doc, read_docs, spell_checked, GenOpts, Spelling, Val};
use crate::out::Out;
use crate::util::{hex, Rng};
use crate::xtapi::{detect, random_supply, translate, Fmt, Supply, ALL_FMTS};

pub fn expected_in(target: Fmt, v: &Val) -> Val {
	if target == Fmt::Toml {
		v.toml_reorder()
	} else {
		v.clone()
	}
}

/// Evaluates the fidelity statement for one (value, spelling, pair, supply,
/// explicit/detected) instance; `Some(problem)` when it fails.
fn fidelity_problem(v: &Val, input: &[u8], a: Fmt, b: Fmt, supply: &Supply, from: Option<Fmt>) -> (bool, Option<String>, Vec<u8>) {
	let _ = a;
	let got = translate(input, supply, from, b);
	let expect = expected_in(b, v);
	let verdict = match &got.result {
		Err(e) => Some(format!("translation failed: {e}")),
		Ok(()) => match read_docs(b, &got.output) {
			Err(e) => Some(format!("output is not readable as {}: {e}", b.name())),
			Ok(docs) if docs.len() != 1 => Some(format!("output holds {} documents", docs.len())),
			Ok(docs) if docs[0] != expect && b == Fmt::Toml && docs[0] == v.toml_written_order() => {
				Some(format!("K4 output denotes {}", docs[0].short()))
			}
			Ok(docs) if docs[0] != expect => Some(format!("output denotes {}", docs[0].short())),
			Ok(_) => None,
		},
	};
	(got.ok(), verdict, got.output)
}

pub fn check_pair(out: &mut Out, rng: &mut Rng, v: &Val, a: Fmt, b: Fmt, sp: &Spelling) {
	let Some(input) = spell_checked(a, v, sp) else {
		out.count(&format!("gen.dropped_by_selfcheck.{}", a.name()));
		return;
	};
	out.count(&format!("pair.{}->{}", a.name(), b.name()));
	let supplies = [Supply::Slice, random_supply(rng)];
	for supply in supplies.iter() {
		for detected in [false, true] {
			let from = if detected {
				// Detection is exercised when it selects the source format.
				match detect(&input, supply) {
					Ok(Some(f)) if f == a => None,
					_ => continue,
				}
			} else {
				Some(a)
			};
			let (ok, verdict, _) = fidelity_problem(v, &input, a, b, supply, from);
			out.eval("fidelity", &format!("{}{}{}{}{}", a.name(), b.name(), supply.describe(), detected, hex(&input)), ok);
			if verdict.is_some() {
				// Minimise the document (same pair, spelling, supply and mode).
				let small = crate::gen::shrink(v, &mut |c: &Val| {
					if !c.representable(a) || !c.representable(b) {
						return false;
					}
					match spell_checked(a, c, sp) {
						Some(inp) => {
							(from.is_some() || matches!(detect(&inp, supply), Ok(Some(f)) if f == a))
								&& fidelity_problem(c, &inp, a, b, supply, from).1.is_some()
						}
						None => false,
					}
				});
				let small_input = spell_checked(a, &small, sp).unwrap_or_default();
				let (_, problem, output) = fidelity_problem(&small, &small_input, a, b, supply, from);
				let class = if problem.as_deref().unwrap_or("").starts_with("K4 ") { "K4-toml-three-groups" } else { "" };
				out.fail(
					"fidelity",
					class,
					format!(
						"{}→{} {} from={} value {} spelled as {}: {}; expected {}; output={}",
						a.name(),
						b.name(),
						supply.describe(),
						if detected { "detected" } else { "explicit" },
						small.short(),
						hex(&small_input),
						problem.unwrap_or_default(),
						expected_in(b, &small).short(),
						hex(&output)
					),
				);
			}
		}
	}
}

pub fn run(out: &mut Out, rng: &mut Rng, thorough: bool) {
	let n = if thorough { 4000 } else { 350 };
	for i in 0..n {
		for &a in &ALL_FMTS {
			for &b in &ALL_FMTS {
				let opts = GenOpts::cdm().for_formats(&[a, b]);
				let deep = rng.range(20, 64) as usize;
				let v = if i % 25 == 24 { gen_deep(rng, &opts, deep) } else { gen_doc(rng, &opts) };
				if !v.representable(a) || !v.representable(b) {
					out.count("gen.not_in_common_model");
					continue;
				}
				let sp = if i % 3 == 0 { Spelling::plain() } else { Spelling::random(rng) };
				check_pair(out, rng, &v, a, b, &sp);
				if i < 2 && a == Fmt::Json {
					out.sample(format!("fidelity {}→{} value {}", a.name(), b.name(), v.short()));
				}
			}
		}
	}
	// Every nasty scalar on its own, in a one-entry map and a one-element array.
	for s in crate::gen::NASTY_STRINGS {
		for &a in &ALL_FMTS {
			for &b in &ALL_FMTS {
				let v = Val::Map(vec![(Val::Str(s.to_string()), Val::Seq(vec![Val::Str(s.to_string())]))]);
				check_pair(out, rng, &v, a, b, &Spelling::plain());
			}
		}
	}
	for &i in crate::gen::NASTY_INTS {
		for &a in &ALL_FMTS {
			for &b in &ALL_FMTS {
				let v = Val::Map(vec![(Val::Str("i".into()), Val::Int(i))]);
				if v.representable(a) && v.representable(b) {
					{ let sp = Spelling::random(rng); check_pair(out, rng, &v, a, b, &sp); }
				}
			}
		}
	}
	for &bits in crate::gen::NASTY_F64_BITS {
		for &a in &ALL_FMTS {
			for &b in &ALL_FMTS {
				let v = Val::Map(vec![(Val::Str("f".into()), Val::F64(bits))]);
				{ let sp = Spelling::random(rng); check_pair(out, rng, &v, a, b, &sp); }
			}
		}
	}
	// Collection sizes at every header-width boundary of the formats (MessagePack
	// fix/16/32 headers, and well past any preallocation cap a transcoder might
	// apply to size hints): arrays and maps of N elements, at the root and nested.
	let sizes: &[usize] = if thorough { &[15, 16, 17, 255, 256, 4095, 4096, 4097, 32767, 32768, 65535, 65536, 70001] } else { &[15, 16, 17, 4096, 4097, 32768, 65536] };
	for &n in sizes {
		let arr = Val::Seq((0..n).map(|i| Val::Int((i % 7) as i128)).collect());
		let map = Val::Map((0..n).map(|i| (Val::Str(format!("k{i}")), Val::Int((i % 5) as i128))).collect());
		let nested = Val::Map(vec![(Val::Str("a".into()), arr.clone()), (Val::Str("m".into()), map.clone())]);
		for v in [arr, map, nested] {
			for &a in &ALL_FMTS {
				for &b in &ALL_FMTS {
					// Large sizes only for the pairs where they are cheap.
					// Sizes above 5 000 only for the JSON / MessagePack pairs (the YAML
					// and TOML crates take seconds per such document).
					if n > 5000 && (a == Fmt::Yaml || b == Fmt::Yaml || a == Fmt::Toml || b == Fmt::Toml) {
						continue;
					}
					if v.representable(a) && v.representable(b) {
						out.count("sizes.boundary_collections");
						check_pair(out, rng, &v, a, b, &Spelling::plain());
					}
				}
			}
		}
	}
	// Past 2^20 elements (a bound a "cautious" size hint might be clamped to):
	// only the pairs where a million elements cost milliseconds.
	for n in [(1usize << 20) - 1, 1 << 20, (1 << 20) + 1] {
		let arr = Val::Seq((0..n).map(|i| Val::Int((i % 7) as i128)).collect());
		let nested = Val::Map(vec![(Val::Str("a".into()), arr.clone()), (Val::Str("z".into()), Val::Int(1))]);
		for v in [arr, nested] {
			for (a, b) in [(Fmt::Msgpack, Fmt::Msgpack), (Fmt::Json, Fmt::Msgpack), (Fmt::Msgpack, Fmt::Json)] {
				if v.representable(a) && v.representable(b) {
					out.count("sizes.beyond_2_pow_20");
					check_pair(out, rng, &v, a, b, &Spelling::plain());
				}
			}
		}
	}
	// Non-finite floats for the targets that have them.
	for x in [f64::INFINITY, f64::NEG_INFINITY, f64::NAN] {
		for &a in &[Fmt::Yaml, Fmt::Toml, Fmt::Msgpack] {
			for &b in &[Fmt::Yaml, Fmt::Toml, Fmt::Msgpack] {
				let v = Val::Map(vec![(Val::Str("f".into()), crate::gen::f64v(x))]);
				check_pair(out, rng, &v, a, b, &Spelling::plain());
			}
		}
	}
}
