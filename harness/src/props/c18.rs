//! C18 at the level of xt's API and binaries (filled in below).

use crate::out::Out;
use crate::util::Rng;

pub fn run(_out: &mut Out, _rng: &mut Rng, _thorough: bool) {}
