//! C18 at the level of xt's API and of the real binaries: nesting limits are
//! clean (an error, never a crash) and the same for slice and reader input.
//!
//! (a) for every format, every nesting shape, every depth in a window around
//!     the format's limit and far beyond, all four targets, explicit and
//!     detected source format: verdict(slice) == verdict(reader), and on
//!     success the outputs are equal;
//! (b) MessagePack exactly: 1023 collections around a scalar are accepted,
//!     1024 or more are rejected, in both modes, for every shape (an empty
//!     innermost collection counts as one);
//! (c) the debug and release binaries, on their default main-thread stack,
//!     exit 0 or 1 (never a signal) at every such depth up to 10^6, and agree
//!     between file (mmap) and stdin input, and with each other.

use std::io::Write;
use std::process::{Command, Stdio};

use crate::engines::msgpack::{nest, reader_supply, shape, Wrap, SHAPE_NAMES};
use crate::out::Out;
use crate::util::Rng;
use crate::xtapi::{translate, Fmt, Supply, ALL_FMTS};

/// The nesting limit each format is expected to have on this tree (measured;
/// MessagePack's is also proved on the model). Used to place the windows.
fn expected_limit(f: Fmt) -> usize {
	match f {
		Fmt::Json => 128,
		Fmt::Yaml => 128,
		Fmt::Toml => 80,
		Fmt::Msgpack => xt::verif::MSGPACK_DEPTH_LIMIT,
	}
}

fn text_shapes(f: Fmt) -> &'static [&'static str] {
	match f {
		Fmt::Json => &["arrays", "maps", "alternating", "random"],
		Fmt::Yaml => &["arrays", "maps", "alternating", "block-seq", "block-map", "random"],
		Fmt::Toml => &["arrays", "inline-tables", "alternating", "dotted-header", "dotted-key", "random"],
		Fmt::Msgpack => &SHAPE_NAMES,
	}
}

/// A document of the given format with `n` levels of nesting of the named shape.
pub fn nested_doc(f: Fmt, shape_name: &str, n: usize, rng: &mut Rng) -> Vec<u8> {
	let pick = |i: usize, rng: &mut Rng| -> bool {
		// true = sequence, false = mapping
		match shape_name {
			"arrays" => true,
			"maps" | "inline-tables" => false,
			"alternating" => i % 2 == 0,
			_ => rng.chance(1, 2),
		}
	};
	match f {
		Fmt::Msgpack => {
			let ws = shape(shape_name, n, rng);
			nest(&ws, &[0x01], &[0xa1, 0x6b])
		}
		Fmt::Json => {
			let mut open = String::new();
			let mut close: Vec<char> = vec![];
			for i in 0..n {
				if pick(i, rng) {
					open.push('[');
					close.push(']');
				} else {
					open.push_str("{\"a\":");
					close.push('}');
				}
			}
			close.reverse();
			format!("{open}1{}", close.into_iter().collect::<String>()).into_bytes()
		}
		Fmt::Yaml => match shape_name {
			"block-seq" => format!("{}1\n", "- ".repeat(n)).into_bytes(),
			"block-map" => {
				let mut s = String::new();
				for i in 0..n {
					s.push_str(&" ".repeat(i));
					s.push_str("a:\n");
				}
				s.push_str(&" ".repeat(n));
				s.push_str("1\n");
				s.into_bytes()
			}
			_ => {
				let mut open = String::new();
				let mut close: Vec<char> = vec![];
				for i in 0..n {
					if pick(i, rng) {
						open.push('[');
						close.push(']');
					} else {
						open.push_str("{a: ");
						close.push('}');
					}
				}
				close.reverse();
				format!("{open}1{}\n", close.into_iter().collect::<String>()).into_bytes()
			}
		},
		Fmt::Toml => match shape_name {
			"dotted-header" => format!("[{}]\nx = 1\n", vec!["a"; n.max(1)].join(".")).into_bytes(),
			"dotted-key" => format!("{} = 1\n", vec!["a"; n.max(1)].join(".")).into_bytes(),
			_ => {
				let mut open = String::new();
				let mut close: Vec<char> = vec![];
				for i in 0..n {
					if pick(i, rng) {
						open.push('[');
						close.push(']');
					} else {
						open.push_str("{a = ");
						close.push('}');
					}
				}
				close.reverse();
				format!("a = {open}1{}\n", close.into_iter().collect::<String>()).into_bytes()
			}
		},
	}
}

/// Largest depth used for a shape.  libyaml's scanner spends time quadratic in
/// the flow-mapping depth (16 000 levels: 2 s, 32 000: 8 s in a release build,
/// so 10^6 would take hours), and a block mapping's text is itself quadratic
/// in its depth; those shapes stop earlier.  Reported as an observation.
fn depth_cap(f: Fmt, shape_name: &str, thorough: bool) -> usize {
	match (f, shape_name) {
		(Fmt::Yaml, "block-map") => 3000,
		// linear, but slow in a debug build (10^6 flow-sequence levels: 48 s per run)
		(Fmt::Yaml, "arrays") if !thorough => 100_000,
		(Fmt::Yaml, "maps") | (Fmt::Yaml, "alternating") | (Fmt::Yaml, "random") => {
			if thorough {
				10_000
			} else {
				4000
			}
		}
		_ => 1_000_000,
	}
}

fn window(f: Fmt, thorough: bool) -> Vec<usize> {
	let l = expected_limit(f);
	let (lo, hi) = if thorough { (l - 6, l + 6) } else { (l - 3, l + 3) };
	(lo..=hi).collect()
}

fn is_panic(o: &crate::xtapi::Outcome) -> bool {
	matches!(&o.result, Err(e) if e.starts_with("PANIC"))
}

fn in_process(out: &mut Out, rng: &mut Rng, thorough: bool) {
	for &f in ALL_FMTS.iter() {
		for shape_name in text_shapes(f) {
			let mut depths = window(f, thorough);
			depths.extend_from_slice(&[1, 2, expected_limit(f) / 2, 2 * expected_limit(f), 1000, 4000, 10_000, 100_000]);
			if thorough {
				depths.push(1_000_000);
			}
			let mut last_ok: Option<usize> = None;
			let mut first_err: Option<usize> = None;
			for &n in &depths {
				if n > depth_cap(f, shape_name, thorough) {
					continue;
				}
				let doc = nested_doc(f, shape_name, n, rng);
				for &to in ALL_FMTS.iter() {
					for from in [Some(f), None] {
						if n > 10_000 && (from.is_none() || to != Fmt::Json) && !thorough {
							continue;
						}
						let s = translate(&doc, &Supply::Slice, from, to);
						let supply = reader_supply(rng);
						let r = translate(&doc, &supply, from, to);
						let key = format!("{}/{shape_name}/{n}/{}/{:?}", f.name(), to.name(), from.map(Fmt::name));
						out.eval("depth_verdict_slice_eq_reader", &key, s.ok());
						let describe = || {
							format!(
								"{} document, shape {shape_name}, {n} levels, to {}, from {:?}, reader {}: slice {:?} ({} bytes out) / reader {:?} ({} bytes out)",
								f.name(),
								to.name(),
								from.map(Fmt::name),
								supply.describe(),
								s.result,
								s.output.len(),
								r.result,
								r.output.len()
							)
						};
						if is_panic(&s) || is_panic(&r) {
							out.fail("nesting_limit_is_clean", "", format!("panic: {}", describe()));
						} else if s.ok() != r.ok() {
							out.fail("depth_verdict_slice_eq_reader", "", format!("verdicts differ: {}", describe()));
						} else if s.ok() && s.output != r.output {
							out.fail("depth_output_slice_eq_reader", "", format!("outputs differ: {}", describe()));
						}
						if from == Some(f) && to == Fmt::Yaml {
							// YAML takes every shape the sources can produce
							if s.ok() {
								last_ok = Some(last_ok.map_or(n, |m| m.max(n)));
							} else {
								first_err = Some(first_err.map_or(n, |m| m.min(n)));
							}
						}
					}
				}
			}
			out.count(&format!("boundary.{}.{shape_name}.last_ok={:?}.first_err={:?}", f.name(), last_ok, first_err));
			if let (Some(a), Some(b)) = (last_ok, first_err) {
				out.eval("limit_is_a_threshold", &format!("{}/{shape_name}", f.name()), true);
				if a > b {
					out.fail("limit_is_a_threshold", "", format!("{} shape {shape_name}: depth {a} accepted but smaller depth {b} rejected", f.name()));
				}
			}
		}
	}
}

/// (b): the MessagePack boundary, exactly, for every shape and innermost value.
fn msgpack_boundary(out: &mut Out, rng: &mut Rng, thorough: bool) {
	let limit = xt::verif::MSGPACK_DEPTH_LIMIT;
	let cores: [(&str, &[u8], usize); 5] = [("nil", &[0xc0], 0), ("int", &[0x2a], 0), ("str", &[0xa2, 0x78, 0x74], 0), ("empty-array", &[0x90], 1), ("empty-map", &[0x80], 1)];
	for name in SHAPE_NAMES.iter() {
		for (core_name, core, extra) in cores.iter() {
			let span = if thorough { 7 } else { 3 };
			for total in (limit - span)..=(limit + span) {
				// `total` collections in all
				let n = total - extra;
				let ws = shape(name, n, rng);
				let has_keypos = ws.iter().any(|w| matches!(w, Wrap::MapKey(_)));
				let doc = nest(&ws, core, &[0xa1, 0x6b]);
				for &to in ALL_FMTS.iter() {
					for from in [Some(Fmt::Msgpack), None] {
						let s = translate(&doc, &Supply::Slice, from, to);
						let r = translate(&doc, &reader_supply(rng), from, to);
						out.eval("msgpack_depth_boundary", &format!("{name}/{core_name}/{total}/{}/{:?}", to.name(), from.is_some()), true);
						let expect_ok = total <= limit - 1;
						// targets that cannot take the shape fail for their own
						// reasons; acceptance is judged on MessagePack and YAML
						// (and on JSON when no collection sits in key position)
						let target_takes_it = match to {
							Fmt::Msgpack | Fmt::Yaml => true,
							Fmt::Json => !has_keypos,
							Fmt::Toml => false,
						};
						// a detected source needs a collection at the root
						let detectable = from.is_some() || n > 0 || *extra > 0;
						let bad = if !expect_ok {
							s.ok() || r.ok()
						} else {
							target_takes_it && detectable && (!s.ok() || !r.ok())
						};
						if bad || s.ok() != r.ok() {
							out.fail(
								"msgpack_depth_boundary",
								"",
								format!(
									"{total} nested collections (shape {name}, innermost {core_name}), to {}, from {:?}: expected {} in both modes, got slice {:?} / reader {:?}",
									to.name(),
									from.map(Fmt::name),
									if expect_ok { "success" } else { "failure" },
									s.result,
									r.result
								),
							);
						}
						if !expect_ok {
							let msg = |o: &crate::xtapi::Outcome| o.result.clone().err().unwrap_or_default();
							if from.is_some() && (msg(&s) != "depth limit exceeded" || msg(&r) != "depth limit exceeded") {
								out.count("msgpack_boundary.rejected_with_other_message");
							}
						}
					}
				}
			}
		}
	}
}

struct BinCase {
	bin: usize,
	fmt: Fmt,
	shape: String,
	n: usize,
	to: Fmt,
	doc_id: usize,
}

fn run_bin(bin: &str, args: &[&str], stdin: Option<&[u8]>) -> (Option<i32>, usize, String) {
	let mut cmd = Command::new(bin);
	cmd.args(args).stdout(Stdio::piped()).stderr(Stdio::piped());
	cmd.stdin(if stdin.is_some() { Stdio::piped() } else { Stdio::null() });
	let mut child = match cmd.spawn() {
		Ok(c) => c,
		Err(e) => return (None, 0, format!("spawn failed: {e}")),
	};
	let feeder = stdin.map(|data| {
		let mut pipe = child.stdin.take().unwrap();
		let data = data.to_vec();
		std::thread::spawn(move || {
			let _ = pipe.write_all(&data);
		})
	});
	let output = child.wait_with_output();
	if let Some(h) = feeder {
		let _ = h.join();
	}
	match output {
		Ok(o) => (o.status.code(), o.stdout.len(), String::from_utf8_lossy(&o.stderr).chars().take(160).collect()),
		Err(e) => (None, 0, format!("wait failed: {e}")),
	}
}

/// (c): the real binaries on their default main-thread stack.
fn binaries(out: &mut Out, rng: &mut Rng, thorough: bool) {
	let bins: Vec<(String, String)> = [("debug", "XT_BIN_DEBUG"), ("release", "XT_BIN_RELEASE")]
		.iter()
		.map(|(name, var)| (name.to_string(), std::env::var(var).unwrap_or_default()))
		.collect();
	for (name, path) in &bins {
		if path.is_empty() || !std::path::Path::new(path).exists() {
			out.fail("xt_binary_available", "", format!("the {name} xt binary is not available at {path:?} (./check builds it and passes XT_BIN_DEBUG / XT_BIN_RELEASE)"));
			return;
		}
	}
	let workdir = std::env::args().nth(5).unwrap_or_else(|| ".".to_string());
	let dir = format!("{workdir}/c18-inputs");
	let _ = std::fs::create_dir_all(&dir);

	// Build the documents once, write them to files (no extension: the format
	// comes from -f or from detection).
	let mut docs: Vec<(Fmt, String, usize, String)> = vec![];
	for &f in ALL_FMTS.iter() {
		for shape_name in text_shapes(f) {
			if !thorough && (*shape_name == "random" || *shape_name == "mixed-keypos") {
				continue;
			}
			// headers wider than needed (array 16, map 32): in the quick tier only
			// far beyond the limit, where an uncounted level costs the stack
			let wide_only_far = !thorough && (*shape_name == "map32" || *shape_name == "array16");
			let l = expected_limit(f);
			let mut depths: Vec<usize> = if wide_only_far {
				vec![]
			} else if thorough {
				(l - 3..=l + 3).collect()
			} else {
				vec![l - 2, l - 1, l, l + 1]
			};
			if wide_only_far {
				depths.extend_from_slice(&[20_000, 300_000]);
			} else {
				depths.extend_from_slice(&[1000, 4000, 10_000, 100_000, 1_000_000]);
			}
			for n in depths {
				if n > depth_cap(f, shape_name, thorough) {
					continue;
				}
				let doc = nested_doc(f, shape_name, n, rng);
				let path = format!("{dir}/{}-{shape_name}-{n}", f.name());
				if std::fs::write(&path, &doc).is_err() {
					out.fail("xt_binary_available", "", format!("cannot write {path}"));
					return;
				}
				docs.push((f, shape_name.to_string(), n, path));
			}
		}
	}
	let mut cases: Vec<BinCase> = vec![];
	for (doc_id, (f, shape_name, n, _)) in docs.iter().enumerate() {
		let targets: Vec<Fmt> = if thorough { ALL_FMTS.to_vec() } else { vec![ALL_FMTS[doc_id % 4], ALL_FMTS[(doc_id / 4 + 1 + doc_id % 4) % 4]] };
		for to in targets {
			for bin in 0..2 {
				cases.push(BinCase { bin, fmt: *f, shape: shape_name.clone(), n: *n, to, doc_id });
			}
		}
	}
	// Run in parallel; each case twice: file argument (mmap => slice) and stdin
	// (reader).  Work item 2*i is case i by file, 2*i+1 is case i by stdin.
	let workers = 14usize;
	type BinResult = (Option<i32>, usize, String);
	let results: Vec<Vec<(usize, BinResult)>> = std::thread::scope(|scope| {
		let handles: Vec<_> = (0..workers)
			.map(|w| {
				let cases = &cases;
				let docs = &docs;
				let bins = &bins;
				scope.spawn(move || {
					let mut res = vec![];
					for item in 0..2 * cases.len() {
						if item % workers != w {
							continue;
						}
						let c = &cases[item / 2];
						let t0 = std::time::Instant::now();
						let path = &docs[c.doc_id].3;
						let bin = &bins[c.bin].1;
						let r = if item % 2 == 0 {
							run_bin(bin, &["-f", c.fmt.name(), "-t", c.to.name(), path], None)
						} else {
							let data = std::fs::read(path).unwrap_or_default();
							run_bin(bin, &["-f", c.fmt.name(), "-t", c.to.name()], Some(&data))
						};
						if t0.elapsed().as_secs_f32() > 2.0 && std::env::var("XTVERIF_TIMING").is_ok() {
							eprintln!("c18 slow: {:.1}s {} {} {} {} -> {} mode {}", t0.elapsed().as_secs_f32(), bins[c.bin].0, c.fmt.name(), c.shape, c.n, c.to.name(), item % 2);
						}
						res.push((item, r));
					}
					res
				})
			})
			.collect();
		handles.into_iter().map(|h| h.join().unwrap_or_default()).collect()
	});
	let mut by_item: Vec<Option<BinResult>> = (0..2 * cases.len()).map(|_| None).collect();
	for chunk in results {
		for (item, r) in chunk {
			by_item[item] = Some(r);
		}
	}
	let by_case: Vec<Option<(BinResult, BinResult)>> = (0..cases.len())
		.map(|i| match (by_item[2 * i].take(), by_item[2 * i + 1].take()) {
			(Some(a), Some(b)) => Some((a, b)),
			_ => None,
		})
		.collect();
	let mut codes: std::collections::HashMap<(usize, &'static str), Vec<Option<i32>>> = std::collections::HashMap::new();
	for (i, c) in cases.iter().enumerate() {
		let Some((by_file, by_stdin)) = &by_case[i] else {
			out.fail("binary_exit_is_clean", "", format!("no result for case {i}"));
			continue;
		};
		let what = format!("{} xt -f {} -t {} on {} levels of shape {}", bins[c.bin].0, c.fmt.name(), c.to.name(), c.n, c.shape);
		out.eval("binary_exit_is_clean", &what, by_file.0 == Some(0));
		out.count(&format!("binaries.{}.exit_{:?}", bins[c.bin].0, by_file.0));
		for (mode, r) in [("file", by_file), ("stdin", by_stdin)] {
			if r.0 != Some(0) && r.0 != Some(1) {
				out.fail("binary_exit_is_clean", "", format!("{what} ({mode} input): wait status code {:?} (None = killed by a signal), stderr {:?}", r.0, r.2));
			}
		}
		if by_file.0 != by_stdin.0 || (by_file.0 == Some(0) && by_file.1 != by_stdin.1) {
			out.fail("binary_file_eq_stdin", "", format!("{what}: file input gave exit {:?} with {} bytes, stdin gave exit {:?} with {} bytes", by_file.0, by_file.1, by_stdin.0, by_stdin.1));
		}
		codes.entry((c.doc_id, c.to.name())).or_default().push(by_file.0);
	}
	for ((doc_id, to), v) in codes {
		if v.len() == 2 && v[0] != v[1] {
			let d = &docs[doc_id];
			out.fail("binary_debug_eq_release", "", format!("{} levels of {} shape {} to {to}: debug exit {:?}, release exit {:?}", d.2, d.0.name(), d.1, v[0], v[1]));
		}
	}
	let _ = std::fs::remove_dir_all(&dir);
}

pub fn run(out: &mut Out, rng: &mut Rng, thorough: bool) {
	let t0 = std::time::Instant::now();
	in_process(out, &mut rng.fork(), thorough);
	let t1 = std::time::Instant::now();
	msgpack_boundary(out, &mut rng.fork(), thorough);
	let t2 = std::time::Instant::now();
	binaries(out, &mut rng.fork(), thorough);
	eprintln!("c18: in-process {:.1}s, msgpack boundary {:.1}s, binaries {:.1}s", (t1 - t0).as_secs_f32(), (t2 - t1).as_secs_f32(), t2.elapsed().as_secs_f32());
}
