//! C15 on the real binary: output of earlier inputs survives a later failure.
//!
//! 1–6 inputs of sizes from a few bytes to more than the 8 KiB buffer to a
//! MiB, the failing input at every position, every failure kind (missing
//! file, syntax error — at the start, and after a long valid prefix —,
//! undetectable format, a value the target refuses, a second document for
//! TOML, a second use of standard input), all targets, stdout a pipe or a
//! file.  Statement (library-only oracle): status 1, stdout = the complete
//! outputs of the inputs before the failing one + a prefix of what the library
//! wrote for the failing one; success ⇒ everything written, status 0.

use crate::engines::cli::{self, fifo, json_array, json_object, json_stream, msgpack_of, regular, run_cases, spec_of, toml_rows, yaml_seq, Kind, Operand, Planner, RunSpec, StdoutMode};
use crate::out::Out;
use crate::props::c14::check_against_library;
use crate::util::Rng;
use crate::xtapi::{Fmt, ALL_FMTS};

/// A translatable input of roughly the given size class, valid for the target.
fn good(rng: &mut Rng, idx: usize, size_class: u64, to: Fmt) -> Operand {
	let n = match size_class {
		0 => 0,
		1 => 1,
		2 => rng.range(2, 8) as usize,
		3 => rng.range(15, 22) as usize,     // around the 8 KiB buffer
		4 => rng.range(40, 200) as usize,    // tens of KiB
		_ => rng.range(2300, 2700) as usize, // more than a MiB
	};
	let table_root = to == Fmt::Toml;
	let name_base = format!("in{idx}");
	match rng.below(if table_root { 2 } else { 5 }) {
		0 => regular(&format!("{name_base}.json"), if table_root { json_object(n) } else { json_array(n) }),
		1 => regular(&format!("{name_base}.toml"), toml_rows(n.max(1))),
		2 => regular(&format!("{name_base}.yaml"), yaml_seq(n.max(1))),
		3 => fifo(&format!("{name_base}.JSON"), json_stream(n.max(1))),
		_ => regular(&format!("{name_base}.msgpack"), msgpack_of(&json_array(n))),
	}
}

#[derive(Clone, Copy, Debug, PartialEq)]
enum FailKind {
	Missing,
	SyntaxAtStart,
	SyntaxAfterPrefix,
	Undetectable,
	Refused,
	SecondToml,
	SecondStdin,
	Directory,
}

const FAIL_KINDS: [FailKind; 8] = [
	FailKind::Missing,
	FailKind::SyntaxAtStart,
	FailKind::SyntaxAfterPrefix,
	FailKind::Undetectable,
	FailKind::Refused,
	FailKind::SecondToml,
	FailKind::SecondStdin,
	FailKind::Directory,
];

fn failing(rng: &mut Rng, kind: FailKind, to: Fmt, big: bool) -> Operand {
	match kind {
		FailKind::Missing => Operand { arg: "nothere.json".into(), kind: Kind::Missing, ext_format: Some(Fmt::Json) },
		FailKind::Directory => Operand { arg: "adir.yaml".into(), kind: Kind::Dir, ext_format: Some(Fmt::Yaml) },
		FailKind::SyntaxAtStart => regular("bad0.json", b"}{".to_vec()),
		FailKind::SyntaxAfterPrefix => {
			// a long valid prefix, then garbage: the library has written a lot before it fails
			let n = if big { rng.range(400, 1200) } else { rng.range(10, 80) } as usize;
			let mut d = if to == Fmt::Toml { json_object(n) } else { json_stream(n) };
			d.truncate(d.len() - 2);
			d.extend_from_slice(b"@@@");
			regular("badtail.json", d)
		}
		FailKind::Undetectable => regular("mystery", vec![0xc1, 0xc1, 0xff, 0x00]),
		FailKind::Refused => match to {
			Fmt::Toml => regular("refused.json", b"[1, 2, 3]".to_vec()),
			Fmt::Json => regular("refused.yaml", b"? [1, 2]\n: x\n".to_vec()),
			Fmt::Yaml => regular("refused.msgpack", vec![0xc7, 0x01, 0x05, 0x00]),
			Fmt::Msgpack => regular("refused.yaml", b"a: &x [*x]\n".to_vec()),
		},
		FailKind::SecondToml => regular("second.toml", b"z = 1\n".to_vec()),
		FailKind::SecondStdin => Operand::stdin(),
	}
}

pub fn run(out: &mut Out, rng: &mut Rng, thorough: bool) {
	let version = cli::version_string();
	let mut planner = Planner::new();
	struct Case {
		spec: RunSpec,
		ops: Vec<Operand>,
		to: Fmt,
	}
	let mut cases: Vec<Case> = vec![];
	let rounds = if thorough { 14 } else { 2 };
	let mut mib_budget = if thorough { 40 } else { 4 };
	for round in 0..rounds {
		for to in ALL_FMTS {
			for kind in FAIL_KINDS {
				for n_inputs in 1..=6usize {
					// TOML output takes one document: only the first input can succeed
					let positions: Vec<usize> = (0..n_inputs).collect();
					for &k in &positions {
						if !thorough && (k + n_inputs + round) % 3 != 0 {
							continue;
						}
						if to == Fmt::Toml && k > 1 {
							continue;
						}
						if kind == FailKind::SecondToml && (to != Fmt::Toml || k != 1) {
							continue;
						}
						if kind == FailKind::SecondStdin && k == 0 {
							continue;
						}
						let mut ops: Vec<Operand> = vec![];
						for i in 0..k {
							let mut class = rng.below(5);
							if mib_budget > 0 && rng.chance(1, 40) {
								class = 5;
								mib_budget -= 1;
							}
							ops.push(good(rng, i, class, to));
						}
						if kind == FailKind::SecondStdin {
							let at = rng.below(k as u64) as usize;
							ops[at] = Operand::stdin();
						}
						let big = mib_budget > 0 && rng.chance(1, 12);
						ops.push(failing(rng, kind, to, big));
						for i in k + 1..n_inputs {
							let class = rng.below(3);
							ops.push(good(rng, i, class, to));
						}
						let stdin = if to == Fmt::Toml { b"s = 1\n".to_vec() } else { b"[\"stdin\"]\n".to_vec() };
						let mode = if rng.chance(1, 3) { StdoutMode::File } else { StdoutMode::Pipe };
						let opts = vec![format!("-t{}", to.letter())];
						cases.push(Case { spec: spec_of(&opts, &ops, &stdin, mode, rng.chance(1, 5)), ops, to });
					}
				}
			}
		}
	}
	// Success runs: everything is written.
	let n_ok = if thorough { 300 } else { 40 };
	for i in 0..n_ok {
		let to = *rng.pick(&ALL_FMTS);
		let n_inputs = if to == Fmt::Toml { 1 } else { rng.range(1, 6) as usize };
		let mut ops = vec![];
		for j in 0..n_inputs {
			let mut class = rng.below(5);
			if mib_budget > 0 && i % 20 == 0 && j == 0 {
				class = 5;
				mib_budget -= 1;
			}
			ops.push(good(rng, j, class, to));
		}
		let mode = if rng.chance(1, 3) { StdoutMode::File } else { StdoutMode::Pipe };
		let opts = vec![format!("-t{}", to.letter())];
		cases.push(Case { spec: spec_of(&opts, &ops, b"", mode, rng.chance(1, 5)), ops, to });
	}

	let specs: Vec<RunSpec> = cases.iter().map(|c| c.spec.clone()).collect();
	let results = run_cases(out, &mut planner, &version, &specs);
	for (r, c) in results.iter().zip(&cases) {
		check_against_library(out, "earlier_outputs_survive", r, &c.ops, None, c.to);
		let total: usize = r.outcomes.iter().map(|o| o.events.iter().map(|e| e.bytes().len()).sum::<usize>()).sum();
		out.count(match total {
			0..=8191 => "c15.library_output.below_8k",
			8192..=65535 => "c15.library_output.8k_to_64k",
			65536..=1048575 => "c15.library_output.64k_to_1m",
			_ => "c15.library_output.above_1m",
		});
	}
	if let Some(r) = results.iter().find(|r| r.observed.status == cli::Status::Exit(1) && r.observed.stdout.len() > 9000) {
		out.sample(format!("cli {} => status 1 with {} bytes on stdout", r.spec.describe(), r.observed.stdout.len()));
	}
}
