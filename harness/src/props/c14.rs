//! C14 on the real binary: source-format resolution and agreement with the library.
//!
//! Implementation-level statement (no model involved): for a command line
//! whose `-f`, file names and contents are known by construction, the CLI
//! succeeds exactly when the in-process library does on the same bytes with
//! the source format `-f`, else the extension's format, else none (detection),
//! and then standard output equals the library's output; a second use of
//! standard input is refused with status 1 after the earlier outputs; a
//! directory operand is an error that names it.  Every run is also a `cli`
//! correspondence case.

use crate::engines::cli::{
	self, expected, fifo, json_array, msgpack_of, regular, run_cases, small_tables_c14, spec_of, toml_rows, yaml_seq, CaseResult, Kind, Operand, Planner, RunSpec, Status, StdoutMode,
};
use crate::out::Out;
use crate::util::Rng;
use crate::xtapi::{Fmt, ALL_FMTS};

fn contents() -> Vec<(&'static str, Vec<u8>)> {
	vec![
		("json", b"{\"a\": [1, 2.5, \"x\"], \"b\": {\"c\": true}}\n".to_vec()),
		("json-stream", b"{\"a\":1}\n{\"b\":[2]}\n".to_vec()),
		("yaml", b"a:\n  - 1\n  - x\nb: {c: true}\n".to_vec()),
		("yaml-docs", b"---\na: 1\n---\nb: [2]\n".to_vec()),
		("toml", b"a = 1\n[t]\nb = \"x\"\n".to_vec()),
		("msgpack", msgpack_of(b"{\"a\":[1,\"x\"],\"b\":{\"c\":true}}")),
		("json-and-yaml", b"{\"a\": 1}".to_vec()),
		("toml-and-yaml", b"a = 1".to_vec()),
		("invalid", b"{\"a\":".to_vec()),
		("blob", vec![0xc1, 0xff, 0x00, 0x7f]),
		("empty", vec![]),
		("json-9k", json_array(20)),
		("yaml-20k", yaml_seq(45)),
		("toml-10k", toml_rows(22)),
	]
}

fn names() -> Vec<&'static str> {
	vec![
		"in.json", "in.JSON", "in.jSoN", "in.msgpack", "in.MsgPack", "in.toml", "in.TOML", "in.yaml", "in.YAML", "in.yml", "in.Yml", "in.tar.json", "in.json.bak", "in.yaml.toml", "in", "in.", ".json",
		"in.txt", "sub.toml/in", "sub/in.yml", "./in.json", "sub/../in.msgpack",
	]
}

fn f_options() -> Vec<(Vec<String>, Option<Fmt>)> {
	let mut v: Vec<(Vec<String>, Option<Fmt>)> = vec![(vec![], None)];
	for (spell, f) in [("j", Fmt::Json), ("json", Fmt::Json), ("m", Fmt::Msgpack), ("msgpack", Fmt::Msgpack), ("t", Fmt::Toml), ("toml", Fmt::Toml), ("y", Fmt::Yaml), ("yaml", Fmt::Yaml)] {
		v.push((vec![format!("-f{spell}")], Some(f)));
	}
	v.push((vec!["-f".into(), "yaml".into()], Some(Fmt::Yaml)));
	v.push((vec!["-f=json".into()], Some(Fmt::Json)));
	v
}

fn describe(o: &cli::Observed) -> String {
	format!("status {} stdout {} stderr {:?}", o.status.token(), cli::digest(&o.stdout), String::from_utf8_lossy(&o.stderr))
}

/// Checks one finished run against the library-only oracle.
pub fn check_against_library(out: &mut Out, what: &str, r: &CaseResult, ops: &[Operand], cli_from: Option<Fmt>, to: Fmt) {
	let exp = expected(ops, &r.spec.stdin, cli_from, to);
	let o = &r.observed;
	let key = r.spec.describe();
	out.eval(what, &key, exp.failure.is_none());
	let stderr = String::from_utf8_lossy(&o.stderr).into_owned();
	let mut bad: Option<String> = None;
	match &exp.failure {
		None => {
			if o.status != Status::Exit(0) || o.stdout != exp.all_complete() || !o.stderr.is_empty() {
				bad = Some(format!("the library translates every input (output {}), but the CLI did not produce exactly that with status 0", cli::digest(&exp.all_complete())));
			}
		}
		Some(f) => {
			let before = exp.all_complete();
			let prefix_ok = o.stdout.len() >= before.len() && o.stdout[..before.len()] == before[..] && f.partial.starts_with(&o.stdout[before.len()..]);
			let names_ok = match &f.names {
				Some(n) => stderr.starts_with(&format!("xt error in {n}: ")),
				None => stderr == format!("xt error: {}\n", f.message),
			};
			if o.status != Status::Exit(1) || !prefix_ok || !names_ok {
				bad = Some(format!(
					"input #{} fails ({}); expected status 1, stderr naming it, stdout = outputs of the earlier inputs ({}) + a prefix of its partial output ({} bytes)",
					f.position + 1,
					f.message,
					cli::digest(&before),
					f.partial.len()
				));
			}
		}
	}
	if let Some(b) = bad {
		out.fail(what, "", format!("{b}: {key} => {}", describe(o)));
	}
}

pub fn run(out: &mut Out, rng: &mut Rng, thorough: bool) {
	let version = cli::version_string();
	let mut planner = Planner::new();
	small_tables_c14(out, rng, thorough);

	// The resolution matrix.
	let contents = contents();
	let names = names();
	let fopts = f_options();
	struct Case {
		spec: RunSpec,
		ops: Vec<Operand>,
		from: Option<Fmt>,
		to: Fmt,
	}
	let mut cases: Vec<Case> = vec![];
	let keep = |rng: &mut Rng| thorough || rng.chance(1, 9);
	for (fo, from) in &fopts {
		for name in &names {
			for (cname, data) in &contents {
				// the three large documents only in a sub-matrix (they cost the model driver time)
				let large = data.len() > 4096;
				if large && !(["in.json", "in.yml", "in", "in.txt", "in.toml"].contains(name) && (fo.is_empty() || fo[0].len() == 3)) {
					continue;
				}
				let _ = cname;
				for to in ALL_FMTS {
					for kind in 0..3 {
						if !keep(rng) {
							continue;
						}
						let mut opts = fo.clone();
						opts.push(format!("-t{}", to.letter()));
						let (ops, stdin): (Vec<Operand>, Vec<u8>) = match kind {
							0 => (vec![regular(name, data.clone())], vec![]),
							1 => (vec![fifo(name, data.clone())], vec![]),
							_ => (vec![Operand::stdin()], data.clone()),
						};
						// `--` so that odd names are operands
						let mut o2 = opts.clone();
						o2.push("--".into());
						let mode = if rng.chance(1, 8) { StdoutMode::File } else { StdoutMode::Pipe };
						cases.push(Case { spec: spec_of(&o2, &ops, &stdin, mode, rng.chance(1, 6)), ops, from: *from, to });
					}
				}
			}
		}
	}
	out.count(if thorough { "exhaustive.resolution_matrix" } else { "sampled.resolution_matrix" });

	// No operand at all = standard input; `-` at each position; `-` twice; directory operands.
	let a = regular("a.json", b"{\"a\":1}".to_vec());
	let b = regular("b.yaml", b"- x\n- 2\n".to_vec());
	let c = fifo("c.toml", b"k = \"v\"\n".to_vec());
	let dir = Operand { arg: "d.json".into(), kind: Kind::Dir, ext_format: Some(Fmt::Json) };
	let stdin_doc = b"{\"s\": [true]}\n".to_vec();
	let stdin_op = Operand::stdin();
	let layouts: Vec<Vec<Operand>> = vec![
		vec![],
		vec![stdin_op.clone()],
		vec![stdin_op.clone(), a.clone()],
		vec![a.clone(), stdin_op.clone()],
		vec![a.clone(), stdin_op.clone(), b.clone()],
		vec![a.clone(), b.clone(), stdin_op.clone()],
		vec![stdin_op.clone(), stdin_op.clone()],
		vec![a.clone(), stdin_op.clone(), b.clone(), stdin_op.clone(), a.clone()],
		vec![stdin_op.clone(), a.clone(), stdin_op.clone()],
		vec![a.clone(), c.clone(), b.clone()],
		vec![dir.clone()],
		vec![a.clone(), dir.clone(), b.clone()],
		vec![a.clone(), a.clone(), a.clone()],
	];
	for ops in &layouts {
		for to in [Fmt::Json, Fmt::Yaml, Fmt::Msgpack] {
			for (fo, from) in [(vec![], None), (vec!["-fy".to_string()], Some(Fmt::Yaml))] {
				let mut opts = fo.clone();
				opts.push(format!("-t{}", to.letter()));
				// the implicit-stdin layout has no operands at all
				let oracle_ops: Vec<Operand> = if ops.is_empty() { vec![stdin_op.clone()] } else { ops.clone() };
				for dbg in [false, true] {
					cases.push(Case { spec: spec_of(&opts, ops, &stdin_doc, StdoutMode::Pipe, dbg), ops: oracle_ops.clone(), from, to });
				}
			}
		}
	}

	let specs: Vec<RunSpec> = cases.iter().map(|c| c.spec.clone()).collect();
	let results = run_cases(out, &mut planner, &version, &specs);
	for (r, c) in results.iter().zip(&cases) {
		check_against_library(out, "cli_eq_library", r, &c.ops, c.from, c.to);
	}
	if let Some(r) = results.first() {
		out.sample(format!("cli {} => {}", r.spec.describe(), cli::observed_answer(&r.observed)));
	}
}
