//! C17 at the level of xt's API and hooks: in-process observations of the YAML
//! binding and decoders under every read size, reader errors at every offset,
//! over-reporting readers of every excess at every read call, and early drops
//! of the chunker after every document.
//!
//! These are observations of CLEAN behaviour (a value, an error, or an
//! unwinding panic where one is allowed). They cannot see undefined behaviour
//! by themselves; `run_sanitizer.sh` runs the same kinds of cases under Miri /
//! AddressSanitizer (thorough tier, and as the search when an obligation breaks).

use std::cell::Cell;
use std::io::{self, Read};
use std::rc::Rc;

use crate::corpus;
use crate::engines::chunker::{gen_stream, guards_case, Excess};
use crate::engines::encoding::encode_text;
use crate::out::Out;
use crate::util::{catch, hex, FaultWriter, Rng, READ_FAULT_TEXT};
use crate::xtapi::Fmt;

const READ_SIZES: [usize; 8] = [1, 2, 3, 7, 64, 8191, 8192, 8193];

/// Caps every read, fails persistently once `fail_at` bytes were delivered,
/// and records what happened.
struct Probe {
	data: Rc<Vec<u8>>,
	pos: usize,
	cap: usize,
	fail_at: Option<usize>,
	calls: Rc<Cell<usize>>,
	raised: Rc<Cell<bool>>,
}

impl Probe {
	fn new(data: &Rc<Vec<u8>>, cap: usize, fail_at: Option<usize>) -> Probe {
		Probe { data: data.clone(), pos: 0, cap: cap.max(1), fail_at, calls: Rc::new(Cell::new(0)), raised: Rc::new(Cell::new(false)) }
	}
}

impl Read for Probe {
	fn read(&mut self, buf: &mut [u8]) -> io::Result<usize> {
		self.calls.set(self.calls.get() + 1);
		let mut avail = self.data.len() - self.pos;
		if let Some(k) = self.fail_at {
			if self.pos >= k {
				self.raised.set(true);
				return Err(io::Error::new(io::ErrorKind::Other, READ_FAULT_TEXT));
			}
			avail = avail.min(k - self.pos);
		}
		let n = buf.len().min(self.cap).min(avail);
		buf[..n].copy_from_slice(&self.data[self.pos..self.pos + n]);
		self.pos += n;
		Ok(n)
	}
}

/// On its `nth` call reports `excess` more bytes than it wrote.
struct Liar {
	data: Rc<Vec<u8>>,
	pos: usize,
	cap: usize,
	nth: usize,
	excess: usize,
	calls: usize,
	/// `(buf.len(), honest count)` of the lying call
	seen: Rc<Cell<Option<(usize, usize)>>>,
}

impl Read for Liar {
	fn read(&mut self, buf: &mut [u8]) -> io::Result<usize> {
		let n = buf.len().min(self.cap).min(self.data.len() - self.pos);
		buf[..n].copy_from_slice(&self.data[self.pos..self.pos + n]);
		self.pos += n;
		self.calls += 1;
		if self.calls == self.nth {
			self.seen.set(Some((buf.len(), n)));
			return Ok(n.saturating_add(self.excess));
		}
		Ok(n)
	}
}

#[derive(Debug, PartialEq)]
enum Seen {
	Ok,
	Err(String),
	Panic(String),
}

fn translate(reader: impl Read, from: Option<Fmt>, to: Fmt) -> Seen {
	let mut w = FaultWriter::new(None, vec![]);
	match catch(|| xt::translate_reader(reader, from.map(Fmt::xt), to.xt(), &mut w)) {
		Ok(Ok(())) => Seen::Ok,
		Ok(Err(e)) => Seen::Err(e.to_string()),
		Err(p) => Seen::Panic(p),
	}
}

fn from_name(from: Option<Fmt>) -> &'static str {
	from.map(Fmt::name).unwrap_or("detect")
}

/// Runs one breadcrumb of this file's forms again (three times): a reader that
/// fails at an offset, or one that over-reports on its nth call.
pub fn replay_crumb(text: &str, data: &[u8]) -> Option<String> {
	let f: Vec<&str> = text.split(' ').collect();
	if f.len() < 4 {
		return None;
	}
	let from = if f[1] == "detect" { None } else { Some(Fmt::from_name(f[1])?) };
	let to = Fmt::from_name(f[2])?;
	let num = |key: &str| -> Option<usize> { f.iter().find_map(|t| t.strip_prefix(key)?.strip_prefix('=')?.parse().ok()) };
	let data = Rc::new(data.to_vec());
	let mut last = None;
	for _ in 0..3 {
		let seen = match f[0] {
			"reader-fault" => translate(Probe::new(&data, num("cap")?, Some(num("fail_at")?)), from, to),
			"over-reporting-reader" => translate(
				Liar { data: data.clone(), pos: 0, cap: num("cap")?, nth: num("call")?, excess: num("excess")?, calls: 0, seen: Rc::new(Cell::new(None)) },
				from,
				to,
			),
			_ => return None,
		};
		last = Some(format!("{seen:?}"));
	}
	last
}

/// (a) every read size, and the slice path.
fn read_sizes(out: &mut Out, label: &str, data: &Rc<Vec<u8>>, from: Option<Fmt>, to: Fmt) {
	let mut verdicts: Vec<bool> = vec![];
	for cap in READ_SIZES {
		crate::util::crumb::set(&crate::xtapi::crumb_text(&crate::xtapi::Supply::Reader(vec![cap]), from, to), data);
		let got = translate(Probe::new(data, cap, None), from, to);
		out.eval("no_panic_any_read_size", &format!("{}{}{cap}", hex(data), from_name(from)), got == Seen::Ok);
		match &got {
			Seen::Panic(p) => out.fail(
				"no_panic_any_read_size",
				"",
				format!("[{label}] input {} as {} with reads of {cap}: panic: {p}", hex(data), from_name(from)),
			),
			Seen::Ok => verdicts.push(true),
			Seen::Err(_) => verdicts.push(false),
		}
	}
	crate::util::crumb::set(&crate::xtapi::crumb_text(&crate::xtapi::Supply::Slice, from, to), data);
	let mut w = FaultWriter::new(None, vec![]);
	let slice = catch(|| xt::translate_slice(data, from.map(Fmt::xt), to.xt(), &mut w));
	out.eval("no_panic_slice", &format!("{}{}", hex(data), from_name(from)), matches!(slice, Ok(Ok(()))));
	if let Err(p) = slice {
		out.fail("no_panic_slice", "", format!("[{label}] slice input {} as {}: panic: {p}", hex(data), from_name(from)));
	}
	out.count(if verdicts.iter().all(|&v| v) {
		"read_sizes.all_ok"
	} else if verdicts.iter().all(|&v| !v) {
		"read_sizes.all_err"
	} else {
		"read_sizes.verdict_depends_on_read_size(C02's subject)"
	});
}

/// (b) a reader error at every offset.
fn faults_everywhere(out: &mut Out, label: &str, data: &Rc<Vec<u8>>, from: Option<Fmt>, cap: usize) {
	let clean = translate(Probe::new(data, cap, None), from, Fmt::Json);
	for k in 0..=data.len() {
		let probe = Probe::new(data, cap, Some(k));
		let raised = probe.raised.clone();
		crate::util::crumb::set(&format!("reader-fault {} json cap={cap} fail_at={k}", from_name(from)), data);
		let got = translate(probe, from, Fmt::Json);
		out.eval("reader_error_at_every_offset", &format!("{}{}{cap}@{k}", hex(data), from_name(from)), raised.get());
		let what = format!("[{label}] input {} as {} reads of {cap}, reader fails at offset {k}", hex(data), from_name(from));
		match got {
			Seen::Panic(p) => out.fail("reader_error_at_every_offset", "", format!("{what}: panic: {p}")),
			Seen::Ok => {
				if raised.get() {
					out.fail("reader_error_at_every_offset", "", format!("{what}: the reader's error was raised and the translation still succeeded"));
				} else {
					out.count("faults.not_reached(consumer_stopped_before_offset)");
				}
			}
			Seen::Err(text) => {
				if !raised.get() {
					out.count("faults.error_before_fault_reached");
				} else if text.contains(READ_FAULT_TEXT) {
					out.count("faults.reported_with_reader_text");
				} else if matches!(clean, Seen::Err(_)) {
					// The input is itself erroneous: its own error may come first.
					out.count("faults.preempted_by_input_error");
				} else {
					out.fail("reader_error_at_every_offset", "", format!("{what}: error without the reader's text although the fault-free run succeeds: {text}"));
				}
			}
		}
	}
}

/// (c) over-reporting readers through the whole translation.
fn liars(out: &mut Out, label: &str, data: &Rc<Vec<u8>>, from: Option<Fmt>, cap: usize) {
	let counter = Probe::new(data, cap, None);
	let calls = counter.calls.clone();
	let _ = translate(counter, from, Fmt::Json);
	let n_calls = calls.get().min(6);
	for nth in 1..=n_calls {
		for excess in (1..=8usize).chain([usize::MAX / 2]) {
			let seen = Rc::new(Cell::new(None));
			crate::util::crumb::set(&format!("over-reporting-reader {} json cap={cap} call={nth} excess={excess}", from_name(from)), data);
			let got = translate(Liar { data: data.clone(), pos: 0, cap, nth, excess, calls: 0, seen: seen.clone() }, from, Fmt::Json);
			let Some((size, n)) = seen.get() else {
				out.count("liars.nth_call_not_reached");
				continue;
			};
			let over = n.saturating_add(excess) > size;
			out.eval("overreport_translation_is_clean", &format!("{}{}{cap}#{nth}+{excess}", hex(data), from_name(from)), over);
			let what = format!(
				"[{label}] input {} as {} reads of {cap}, call {nth} reports {} for a {size}-byte buffer ({n} written)",
				hex(data),
				from_name(from),
				n.saturating_add(excess)
			);
			match got {
				Seen::Panic(_) => out.count(if over { "liars.over_buffer.clean_panic" } else { "liars.within_buffer.panic" }),
				Seen::Err(text) => {
					if text.contains("misbehaving reader") {
						out.count("liars.misbehaving_reader_error");
					} else {
						out.count(if over { "liars.over_buffer.other_error" } else { "liars.within_buffer.error" });
					}
				}
				Seen::Ok => {
					if over {
						out.fail("overreport_translation_is_clean", "", format!("{what}: the translation succeeded"));
					} else {
						out.count("liars.within_buffer.ok(stale_bytes)");
					}
				}
			}
		}
	}
}

/// (d) the chunker dropped after k items, for every k; format detection.
fn early_drops(out: &mut Out, label: &str, data: &Rc<Vec<u8>>, cap: usize) {
	let total = match catch(|| {
		let mut n = 0usize;
		for item in xt::verif::yaml_chunker(Box::new(Probe::new(data, cap, None))) {
			if item.is_err() {
				break;
			}
			n += 1;
		}
		n
	}) {
		Ok(n) => n,
		Err(p) => {
			out.fail("early_drop_is_clean", "", format!("[{label}] chunker over {}: panic: {p}", hex(data)));
			return;
		}
	};
	for k in 0..=total + 1 {
		let r = catch(|| {
			let mut it = xt::verif::yaml_chunker(Box::new(Probe::new(data, cap, None)));
			let mut got = 0usize;
			for _ in 0..k {
				match it.next() {
					Some(Ok(_)) => got += 1,
					_ => break,
				}
			}
			drop(it);
			got
		});
		out.eval("early_drop_is_clean", &format!("{}{cap}/{k}", hex(data)), total > 0);
		match r {
			Ok(got) => {
				if got != k.min(total) {
					out.fail("early_drop_is_clean", "", format!("[{label}] chunker over {} advanced {k} times gave {got} documents, a full run gives {total}", hex(data)));
				}
			}
			Err(p) => out.fail("early_drop_is_clean", "", format!("[{label}] chunker over {} dropped after {k} items: panic: {p}", hex(data))),
		}
	}
	out.count(&format!("drops.documents.{}", match total { 0 => "0", 1 => "1", 2..=5 => "2-5", _ => "6+" }));
	// Format detection reads one document and abandons the chunker.
	let r = catch(|| xt::verif::detect_reader(Probe::new(data, cap, None)).map(|f| f.map(Fmt::from_xt)));
	out.eval("detection_abandons_chunker_cleanly", &format!("{}{cap}", hex(data)), matches!(r, Ok(Ok(Some(Fmt::Yaml)))));
	match r {
		Ok(Ok(f)) => out.count(&format!("drops.detected.{}", f.map(Fmt::name).unwrap_or("none"))),
		Ok(Err(_)) => out.count("drops.detected.error"),
		Err(p) => out.fail("detection_abandons_chunker_cleanly", "", format!("[{label}] detect_reader over {}: panic: {p}", hex(data))),
	}
}

/// Live heap bytes before and after a YAML translation / detection / early
/// drop of the chunker are equal: nothing the binding allocated stays behind
/// (documents with `%YAML` / `%TAG` directives, anchors, tags, errors, faults).
fn no_leak_statement(out: &mut Out) {
	let inputs: Vec<&[u8]> = vec![
		b"a: 1\n",
		b"%YAML 1.2\n---\na: 1\n",
		b"%YAML 1.1\n---\n- x\n...\n%YAML 1.2\n---\n- y\n",
		b"%TAG !e! tag:example.com,2000:app/\n---\n- !e!foo \"bar\"\n",
		b"%TAG ! tag:clarkevans.com,2002:\n%YAML 1.2\n--- !shape\n- a\n",
		b"--- &a [1, 2]\n--- *a\n",
		b"a: &x {k: !!str 1}\nb: *x\n---\n- [\n",
		b"%YAML 1.2\n---\n? [1\n",
		b"%FOO bar\n---\na: 1\n",
	];
	for input in inputs {
		for mode in 0..5 {
			let run = |input: &[u8]| {
				let mut w = crate::util::FaultWriter::new(None, vec![]);
				match mode {
					0 => {
						let _ = xt::translate_reader(crate::util::SchedReader::new(input, vec![3], true, None), Some(xt::Format::Yaml), xt::Format::Json, &mut w);
					}
					1 => {
						let _ = xt::translate_reader(crate::util::SchedReader::new(input, vec![], true, None), None, xt::Format::Msgpack, &mut w);
					}
					2 => {
						let _ = xt::verif::detect_reader(crate::util::SchedReader::new(input, vec![1], true, None));
					}
					3 => {
						// early drop after the first document
						let mut it = xt::verif::yaml_chunker(Box::new(crate::util::SchedReader::new(input, vec![], true, None)));
						let _ = it.next();
					}
					_ => {
						// reader failing half way
						let _ = xt::translate_reader(crate::util::SchedReader::new(input, vec![2], true, Some(input.len() / 2)), Some(xt::Format::Yaml), xt::Format::Yaml, &mut w);
					}
				}
			};
			// Warm up once (lazy statics), then measure.
			run(input);
			let before = crate::alloc::live();
			run(input);
			let after = crate::alloc::live();
			out.eval("no_leak", &format!("{}{mode}", crate::util::hex(input)), true);
			if after != before {
				out.fail(
					"no_leak",
					"",
					format!("YAML input {:?} (mode {mode}: 0 explicit reader, 1 detected, 2 detection only, 3 chunker dropped after one document, 4 reader fault): {} bytes still allocated afterwards", String::from_utf8_lossy(input), after as i64 - before as i64),
				);
			}
		}
	}
}

pub fn run(out: &mut Out, rng: &mut Rng, thorough: bool) {
	no_leak_statement(out);
	let items = corpus::build(rng, if thorough { 60 } else { 12 }, thorough);
	// Every item is taken as YAML; items that are text are also re-encoded.
	let mut inputs: Vec<(String, Rc<Vec<u8>>)> = vec![];
	for item in &items {
		inputs.push((item.label.clone(), Rc::new(item.bytes.clone())));
		if let Ok(text) = std::str::from_utf8(&item.bytes) {
			let wanted = item.label.starts_with("valid.yaml") || item.label.starts_with("fixed.") || (item.label.contains("yaml") && rng.chance(1, 6));
			if wanted && !text.is_empty() && !item.label.contains("utf16_32") {
				let enc = rng.range(1, 4) as u8;
				let bom = rng.chance(1, 2);
				inputs.push((format!("{}.enc{enc}{}", item.label, if bom { ".bom" } else { "" }), Rc::new(encode_text(text, enc, bom))));
				if thorough {
					let enc2 = 1 + (enc % 4);
					inputs.push((format!("{}.enc{enc2}", item.label), Rc::new(encode_text(text, enc2, !bom))));
				}
			}
		}
	}
	// Multi-document YAML streams (0..many documents, every separator style), well-formed and not.
	for i in 0..(if thorough { 600 } else { 80 }) {
		let s = gen_stream(rng, if i % 10 == 9 { 40 } else { 6 }, i % 4 == 3);
		inputs.push((format!("stream.yaml.{}", if s.malformed { "malformed" } else { "valid" }), Rc::new(s.text.clone().into_bytes())));
		if i % 3 == 0 && !s.text.is_empty() {
			let enc = rng.range(1, 4) as u8;
			inputs.push((format!("stream.yaml.enc{enc}"), Rc::new(encode_text(&s.text, enc, rng.chance(1, 2)))));
		}
	}
	out.count(&format!("inputs.total.{}", inputs.len()));
	let stride_b = if thorough { 1 } else { 2 };
	let stride_c = if thorough { 1 } else { 3 };
	let stride_d = 1;
	let mut guard_triples: std::collections::HashSet<(usize, usize, usize)> = std::collections::HashSet::new();
	for (i, (label, data)) in inputs.iter().enumerate() {
		out.count(&format!("inputs.{}", label.split('.').take(2).collect::<Vec<_>>().join(".")));
		let to = if i % 5 == 4 { Fmt::Yaml } else if i % 5 == 3 { Fmt::Msgpack } else { Fmt::Json };
		for from in [Some(Fmt::Yaml), None] {
			read_sizes(out, label, data, from, to);
		}
		if i % stride_b == 0 && data.len() <= if thorough { 1200 } else { 400 } {
			let cap = *rng.pick(&[1usize, 3, 64, 8192]);
			for from in [Some(Fmt::Yaml), None] {
				faults_everywhere(out, label, data, from, cap);
			}
		}
		if i % stride_c == 0 {
			let cap = *rng.pick(&[usize::MAX, 1, 5, 64]);
			for from in [Some(Fmt::Yaml), None] {
				liars(out, label, data, from, cap);
			}
			// The same lying reader against the parser alone and the chunker: the
			// `guards` correspondence (model: readHandler / Reader.read).
			let calls = {
				let p = Probe::new(data, cap, None);
				let c = p.calls.clone();
				let _ = catch(|| xt::verif::yaml_events(Box::new(p)));
				c.get().min(4)
			};
			for nth in 1..=calls {
				// What the nth call looks like (buffer size, honest count): one
				// correspondence case per distinct (size, reported, written).
				let seen = Rc::new(Cell::new(None));
				let _ = catch(|| xt::verif::yaml_events(Box::new(Liar { data: data.clone(), pos: 0, cap, nth, excess: 0, calls: 0, seen: seen.clone() })));
				let Some((size, n)) = seen.get() else { continue };
				for e in (1..=8usize).map(Excess::Abs).chain([Excess::Abs(usize::MAX / 2), Excess::ToSize(0), Excess::ToSize(1)]) {
					let reported = match e {
						Excess::Abs(x) => n.saturating_add(x),
						Excess::ToSize(d) => (size as i64 + d).max(0) as usize,
					};
					if guard_triples.insert((size, reported, n)) {
						guards_case(out, data, nth, cap, e);
					} else {
						out.count("guards.duplicate_triple_skipped");
					}
				}
			}
		}
		if i % stride_d == 0 && std::str::from_utf8(data).is_ok() {
			early_drops(out, label, data, *rng.pick(&[usize::MAX, 1, 7]));
		}
	}
	out.sample(format!(
		"every input x from {{yaml, detect}} x read sizes {READ_SIZES:?} + slice; e.g. {} ({} bytes) with a reader error at each of its {} offsets",
		inputs.first().map(|(l, _)| l.as_str()).unwrap_or("-"),
		inputs.first().map(|(_, d)| d.len()).unwrap_or(0),
		inputs.first().map(|(_, d)| d.len() + 1).unwrap_or(0)
	));
}
