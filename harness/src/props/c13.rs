//! C13 on the real binary: exit status and stream discipline.
//!
//! Correspondence cases (`cli`, `fmtname`, `lexopt`): exhaustive argument
//! vectors over the property's vocabulary, with stdout a pipe, a file and a
//! pseudo-terminal.  Implementation-level statements, independent of the
//! model: the exit status is 0, 1 or 2 (never a signal); status 2 comes with an
//! empty stdout and `xt error: …` + usage on stderr; status 1 with one
//! `xt error` line; status 0 with an empty stderr; command lines that are
//! invalid / valid / help-first *by construction* get 2 / 0 or 1 / 0; a failing
//! input is named; MessagePack never reaches a pseudo-terminal.

use crate::engines::cli::{
	self, file, lexopt_cases, observed_answer, run_cases, small_tables_c13, CaseResult, FileSpec, Kind, Planner, RunSpec, Status, StdoutMode, NAMES,
};
use crate::out::Out;
use crate::util::Rng;

pub const STDIN_DOC: &[u8] = b"{\"s\":true}\n";

/// The fixed pool of operands; a file is created for a run when its name is one of the arguments.
pub fn pool() -> Vec<FileSpec> {
	vec![
		file("a.json", Kind::Regular(b"{\"a\":1}\n".to_vec())),
		file("b.yaml", Kind::Regular(b"- x\n- 2\n".to_vec())),
		file("bad.json", Kind::Regular(b"{\"a\":".to_vec())),
		file("nontable.json", Kind::Regular(b"[1,2]".to_vec())),
		file("blob", Kind::Regular(vec![0xc1, 0xff, 0x00])),
		file("missing.json", Kind::Missing),
		file("dir.d", Kind::Dir),
		file("noread.json", Kind::Unreadable),
		file("a.json/", Kind::NotDir),
	]
}

fn spec_for(args: &[String], out: StdoutMode, debug_bin: bool) -> RunSpec {
	let files: Vec<FileSpec> = pool().into_iter().filter(|f| args.iter().any(|a| *a == f.path)).collect();
	RunSpec { debug_bin, argv0: "xt".to_string(), args: args.to_vec(), stdin: STDIN_DOC.to_vec(), files, out }
}

fn full_vocabulary() -> Vec<String> {
	let mut v: Vec<String> = vec![];
	for n in NAMES {
		for o in ["-t", "-f"] {
			v.push(format!("{o}{n}"));
			v.push(format!("{o}={n}"));
		}
		v.push(n.to_string());
	}
	for t in [
		"-t", "-f", "-tx", "-fxml", "-t=", "-f=", "-tjson=", "-x", "--foo", "--foo=bar", "--to=json", "-hV", "-h", "--help", "-V", "--version", "--help=1", "--", "-", "a.json", "b.yaml",
		"bad.json", "nontable.json", "blob", "missing.json", "dir.d", "noread.json", "a.json/", "-/",
	] {
		v.push(t.to_string());
	}
	v
}

fn reduced_vocabulary() -> Vec<String> {
	["-tj", "-t=yaml", "-tm", "-tt", "-fj", "-f=y", "-t", "-f", "json", "-tx", "-x", "--foo=1", "-h", "--version", "--", "-", "a.json", "b.yaml", "bad.json", "missing.json", "dir.d"]
		.iter()
		.map(|s| s.to_string())
		.collect()
}

const USAGE_TAIL: &str = "Usage: xt [-f format] [-t format] [file ...]\nFormats: json, msgpack, toml, yaml\nTry 'xt --help' for more information.\n";

/// The stream discipline that holds for every run whatever the arguments are.
fn check_discipline(out: &mut Out, r: &CaseResult) {
	let o = &r.observed;
	let key = r.spec.describe();
	out.eval("exit_status_and_streams", &key, true);
	let stderr = String::from_utf8_lossy(&o.stderr).into_owned();
	let mut bad: Option<String> = None;
	match o.status {
		Status::Exit(0) => {
			if !o.stderr.is_empty() {
				bad = Some("exit 0 with a non-empty stderr".into());
			}
		}
		Status::Exit(2) => {
			if !o.stdout.is_empty() {
				bad = Some("exit 2 with bytes on stdout".into());
			} else if !stderr.starts_with("xt error: ") || !stderr.ends_with(USAGE_TAIL) || stderr.lines().count() != 4 {
				bad = Some("exit 2 without `xt error: …` + usage on stderr".into());
			}
		}
		Status::Exit(1) => {
			if !stderr.starts_with("xt error") || !stderr.ends_with('\n') || stderr.trim_end_matches('\n').contains('\n') && !stderr.contains("xt error in") {
				bad = Some("exit 1 without a single `xt error` line on stderr".into());
			}
		}
		_ => bad = Some("exit status is not 0, 1 or 2".into()),
	}
	if stderr.contains("panicked") {
		bad = Some("a panic message on stderr".into());
	}
	if let Some(what) = bad {
		out.fail("exit_status_and_streams", "", format!("{what}: {} => {}", key, describe(o)));
	}
}

fn describe(o: &cli::Observed) -> String {
	format!("status {} stdout {} stderr {:?}", o.status.token(), cli::digest(&o.stdout), String::from_utf8_lossy(&o.stderr))
}

/// Command lines whose class is known by construction.
fn constructed(out: &mut Out, rng: &mut Rng, planner: &mut Planner, version: &str, thorough: bool) {
	let good_inputs = ["a.json", "b.yaml", "-"];
	let bad_inputs: [(&str, &str); 6] = [
		("missing.json", "xt error in missing.json: "),
		("bad.json", "xt error in bad.json: "),
		("dir.d", "xt error in dir.d: "),
		("blob", "xt error in blob: "),
		("noread.json", "xt error in noread.json: "),
		("a.json/", "xt error in a.json/: "),
	];
	let arg_errors = ["-x", "--foo", "-tx", "-t=", "-fyml", "--from=json", "-t", "-q"];
	let n = if thorough { 4000 } else { 500 };
	let mut specs = vec![];
	let mut expect: Vec<(u8, Option<String>)> = vec![]; // class: 0 ok, 1 failing input (prefix), 2 argv error, 3 help first
	for i in 0..n {
		// a valid command line
		let mut args: Vec<String> = vec![];
		let to = *rng.pick(&["", "j", "json", "y", "yaml", "m", "msgpack"]);
		let from_opt = *rng.pick(&["", "", "", "j", "y", "yaml"]);
		let mut opts: Vec<String> = vec![];
		if !to.is_empty() {
			match rng.below(3) {
				0 => opts.push(format!("-t{to}")),
				1 => opts.push(format!("-t={to}")),
				_ => {
					opts.push("-t".into());
					opts.push(to.into());
				}
			}
		}
		if !from_opt.is_empty() {
			match rng.below(3) {
				0 => opts.push(format!("-f{from_opt}")),
				1 => opts.push(format!("-f={from_opt}")),
				_ => {
					opts.push("-f".into());
					opts.push(from_opt.into());
				}
			}
		}
		let n_inputs = rng.below(4) as usize;
		let mut inputs: Vec<String> = vec![];
		let mut used_stdin = false;
		for _ in 0..n_inputs {
			let mut p = *rng.pick(&good_inputs);
			if p == "-" {
				if used_stdin {
					p = "a.json";
				}
				used_stdin = true;
			}
			inputs.push(p.to_string());
		}
		// with -f j/y everything in the pool of good inputs still parses (JSON is YAML; b.yaml is not JSON)
		if from_opt == "j" {
			for p in inputs.iter_mut() {
				if p == "b.yaml" {
					*p = "a.json".into();
				}
			}
		}
		let class = i % 4;
		let mut prefix: Option<String> = None;
		if class == 1 {
			let (bad, pre) = *rng.pick(&bad_inputs);
			let at = rng.below(inputs.len() as u64 + 1) as usize;
			inputs.insert(at, bad.to_string());
			prefix = Some(pre.to_string());
		}
		// options before, after or between the operands
		match rng.below(3) {
			0 => {
				args.extend(opts);
				if rng.chance(1, 3) {
					args.push("--".into());
				}
				args.extend(inputs);
			}
			1 => {
				args.extend(inputs);
				args.extend(opts);
			}
			_ => {
				let mut it = inputs.into_iter();
				if let Some(first) = it.next() {
					args.push(first);
				}
				args.extend(opts);
				args.extend(it);
			}
		}
		if class == 2 {
			// an argument error anywhere before a `--`
			let limit = args.iter().position(|a| a == "--").unwrap_or(args.len());
			// never between a detached option and its value
			let mut at = rng.below(limit as u64 + 1) as usize;
			while at > 0 && (args[at - 1] == "-t" || args[at - 1] == "-f") {
				at -= 1;
			}
			// (a lone `-t` takes whatever follows as its value, which is never a format name here)
			let e = *rng.pick(&arg_errors);
			args.insert(at, e.to_string());
		}
		if class == 3 {
			let h = *rng.pick(&["-h", "--help", "-V", "--version"]);
			let limit = args.iter().position(|a| a == "--").unwrap_or(args.len());
			let mut at = rng.below(limit as u64 + 1) as usize;
			while at > 0 && (args[at - 1] == "-t" || args[at - 1] == "-f") {
				at -= 1;
			}
			args.insert(at, h.to_string());
		}
		let mode = if i % 7 == 0 { StdoutMode::File } else { StdoutMode::Pipe };
		specs.push(spec_for(&args, mode, i % 5 == 0));
		expect.push((class as u8, prefix));
	}
	let results = run_cases(out, planner, version, &specs);
	for (r, (class, prefix)) in results.iter().zip(expect) {
		check_discipline(out, r);
		let o = &r.observed;
		let key = r.spec.describe();
		out.eval("constructed_class", &key, true);
		let stderr = String::from_utf8_lossy(&o.stderr).into_owned();
		let ok = match class {
			0 => o.status == Status::Exit(0),
			1 => o.status == Status::Exit(1) && prefix.as_ref().is_some_and(|p| stderr.starts_with(p.as_str())),
			2 => o.status == Status::Exit(2),
			_ => o.status == Status::Exit(0) && !o.stdout.is_empty() && (o.stdout.starts_with(b"Usage: xt ") || o.stdout.starts_with(b"xt ")),
		};
		if !ok {
			out.fail(
				"constructed_class",
				"",
				format!(
					"a command line that is {} by construction: {} => {}",
					["valid with translatable inputs (expected exit 0)", "valid with one failing input (expected exit 1 naming it)", "invalid (expected exit 2)", "a help/version request before any error (expected exit 0 with the text)"][class as usize],
					key,
					describe(o)
				),
			);
		}
	}
}

/// MessagePack never reaches a terminal; other targets do.
fn terminal(out: &mut Out, planner: &mut Planner, version: &str, thorough: bool) {
	let mut specs = vec![];
	let mut is_msgpack = vec![];
	let targets: Vec<(Vec<&str>, bool)> = vec![
		(vec!["-tm"], true),
		(vec!["-tmsgpack"], true),
		(vec!["-t=m"], true),
		(vec!["-t", "msgpack"], true),
		(vec!["-t", "m", "-fj"], true),
		(vec!["-tj"], false),
		(vec!["-ty"], false),
		(vec!["-tt"], false),
		(vec![], false),
	];
	let operands: Vec<Vec<&str>> = vec![
		vec![],
		vec!["a.json"],
		vec!["-"],
		vec!["a.json", "b.yaml"],
		vec!["missing.json"],
		vec!["bad.json"],
		vec!["a.json", "-h"],
		vec!["-x"],
		vec!["--help"],
		vec!["-V"],
		vec!["a.json", "--version"],
		vec!["--bogus", "a.json"],
		vec!["-f", "nope", "a.json"],
		vec!["a.json", "-f"],
		vec!["-ty"],
	];
	// what the rest of the command line makes of it, whatever -t says: 0 = a
	// help / version request, 2 = invalid
	let class_of = |ops: &Vec<&str>, t: &Vec<&str>| -> Option<u8> {
		if ops.iter().any(|a| ["-x", "--bogus", "nope"].contains(a)) || ops.last() == Some(&"-f") || (ops.contains(&"-ty") && !t.is_empty()) {
			Some(2)
		} else if ops.iter().any(|a| ["-h", "--help", "-V", "--version"].contains(a)) {
			Some(0)
		} else {
			None
		}
	};
	let mut classes = vec![];
	for (t, m) in &targets {
		for ops in &operands {
			for order in 0..2 {
				let mut args: Vec<String> = vec![];
				if order == 0 {
					args.extend(t.iter().map(|s| s.to_string()));
					args.extend(ops.iter().map(|s| s.to_string()));
				} else {
					args.extend(ops.iter().map(|s| s.to_string()));
					args.extend(t.iter().map(|s| s.to_string()));
				}
				if t.contains(&"-fj") && ops.contains(&"-f") {
					continue; // a second -f: covered by the repeated-option matrix
				}
				for dbg in if thorough { vec![false, true] } else { vec![false] } {
					specs.push(spec_for(&args, StdoutMode::Pty, dbg));
					let class = class_of(ops, t);
					is_msgpack.push(*m && class.is_none());
					classes.push(class);
				}
			}
		}
	}
	let results = run_cases(out, planner, version, &specs);
	for ((r, m), class) in results.iter().zip(is_msgpack).zip(classes) {
		check_discipline(out, r);
		let o = &r.observed;
		if let Some(class) = class {
			// an invalid command line is invalid, and a help request is a help
			// request, on a terminal too and wherever -t stands
			out.eval("constructed_class_tty", &r.spec.describe(), true);
			let stderr = String::from_utf8_lossy(&o.stderr).into_owned();
			let ok = match class {
				2 => o.status == Status::Exit(2) && o.stdout.is_empty() && stderr.starts_with("xt error") && stderr.contains("Usage:"),
				_ => o.status == Status::Exit(0) && o.stderr.is_empty() && (o.stdout.starts_with(b"Usage: xt ") || o.stdout.starts_with(b"xt ")),
			};
			if !ok {
				out.fail(
					"constructed_class",
					"",
					format!(
						"stdout a pseudo-terminal, a command line that is {}: {} => {}",
						if class == 2 { "invalid (expected exit 2, usage on stderr, nothing on stdout)" } else { "a help/version request (expected exit 0 with the text)" },
						r.spec.describe(),
						describe(o)
					),
				);
			}
		}
		out.eval("msgpack_never_to_tty", &r.spec.describe(), m);
		if m && !(o.stdout.is_empty() && o.status == Status::Exit(1) && o.stderr == b"xt error: refusing to output MessagePack to a terminal\n") {
			out.fail("msgpack_never_to_tty", "", format!("target MessagePack with stdout a pseudo-terminal: {} => {}", r.spec.describe(), describe(o)));
		}
	}
	out.count("stmt.pty_runs");
}

pub fn run(out: &mut Out, rng: &mut Rng, thorough: bool) {
	let version = cli::version_string();
	let mut planner = Planner::new();
	small_tables_c13(out, rng, thorough);
	lexopt_cases(out, rng, thorough);

	// Exhaustive argument vectors.
	let full = full_vocabulary();
	let reduced = reduced_vocabulary();
	let mut argvs: Vec<Vec<String>> = vec![vec![]];
	for a in &full {
		argvs.push(vec![a.clone()]);
	}
	out.count("exhaustive.argv.full_vocabulary_len_le_1");
	if thorough {
		for a in &full {
			for b in &full {
				argvs.push(vec![a.clone(), b.clone()]);
			}
		}
		out.count("exhaustive.argv.full_vocabulary_len_2");
	} else {
		// quick: every pair that involves a reduced-vocabulary token, sampled
		for a in &full {
			for b in &reduced {
				if rng.chance(1, 3) {
					argvs.push(vec![a.clone(), b.clone()]);
				}
				if rng.chance(1, 3) {
					argvs.push(vec![b.clone(), a.clone()]);
				}
			}
		}
	}
	if thorough {
		for a in &reduced {
			for b in &reduced {
				for c in &reduced {
					argvs.push(vec![a.clone(), b.clone(), c.clone()]);
				}
			}
		}
		out.count("exhaustive.argv.reduced_vocabulary_len_3");
		for a in &reduced {
			for b in &reduced {
				for c in &reduced {
					for d in &reduced {
						if rng.chance(1, 4) {
							argvs.push(vec![a.clone(), b.clone(), c.clone(), d.clone()]);
						}
					}
				}
			}
		}
		for _ in 0..20000 {
			let len = rng.range(3, 6) as usize;
			argvs.push((0..len).map(|_| rng.pick(&full).clone()).collect());
		}
	} else {
		for _ in 0..500 {
			argvs.push((0..3).map(|_| rng.pick(&reduced).clone()).collect());
		}
		for _ in 0..300 {
			let len = rng.range(3, 6) as usize;
			argvs.push((0..len).map(|_| rng.pick(&full).clone()).collect());
		}
	}
	let specs: Vec<RunSpec> = argvs
		.iter()
		.enumerate()
		.map(|(i, a)| {
			let mode = match i % 11 {
				0 => StdoutMode::File,
				1 => StdoutMode::Pty,
				_ => StdoutMode::Pipe,
			};
			spec_for(a, mode, i % 6 == 0)
		})
		.collect();
	let results = run_cases(out, &mut planner, &version, &specs);
	for r in &results {
		check_discipline(out, r);
	}
	if let Some(r) = results.iter().find(|r| r.spec.args.len() == 2) {
		out.sample(format!("cli {} => {}", r.spec.describe(), observed_answer(&r.observed)));
	}

	constructed(out, rng, &mut planner, &version, thorough);
	terminal(out, &mut planner, &version, thorough);
}
