//! Shared document generator: a model value type, a type-directed generator
//! over the common data model with a pool of nasty scalars, per-format
//! spellers (written here, independent of xt), and per-format readers that use
//! each target crate's OWN deserializer (never xt's transcoder).

use std::fmt;

use serde::de::{self, Deserialize, Deserializer, MapAccess, SeqAccess, Visitor};

use crate::util::Rng;
use crate::xtapi::Fmt;

/// The harness-side model value. Integer width is forgotten (an `Int` is an
/// integer whatever serde width carried it); floats are bit patterns.
#[derive(Clone, Debug, PartialEq, Eq, Hash)]
pub enum Val {
	Null,
	Bool(bool),
	Int(i128),
	F64(u64),
	F32(u32),
	Str(String),
	Bytes(Vec<u8>),
	Seq(Vec<Val>),
	Map(Vec<(Val, Val)>),
}

pub fn f64v(x: f64) -> Val {
	// All NaNs are one value.
	Val::F64(if x.is_nan() { f64::NAN.to_bits() } else { x.to_bits() })
}

impl Val {
	pub fn is_collection(&self) -> bool {
		matches!(self, Val::Seq(_) | Val::Map(_))
	}

	pub fn depth(&self) -> usize {
		match self {
			Val::Seq(v) => 1 + v.iter().map(Val::depth).max().unwrap_or(0),
			Val::Map(m) => 1 + m.iter().map(|(k, v)| k.depth().max(v.depth())).max().unwrap_or(0),
			_ => 0,
		}
	}

	pub fn any(&self, f: &dyn Fn(&Val) -> bool) -> bool {
		if f(self) {
			return true;
		}
		match self {
			Val::Seq(v) => v.iter().any(|x| x.any(f)),
			Val::Map(m) => m.iter().any(|(k, v)| k.any(f) || v.any(f)),
			_ => false,
		}
	}

	pub fn all_keys_strings(&self) -> bool {
		!self.any(&|v| matches!(v, Val::Map(m) if m.iter().any(|(k, _)| !matches!(k, Val::Str(_)))))
	}

	pub fn has_dup_keys(&self) -> bool {
		self.any(&|v| match v {
			Val::Map(m) => (0..m.len()).any(|i| (0..i).any(|j| m[i].0 == m[j].0)),
			_ => false,
		})
	}

	/// Whether format `f` can represent this value (the property's "both
	/// formats involved can represent").
	pub fn representable(&self, f: Fmt) -> bool {
		let finite = !self.any(&|v| matches!(v, Val::F64(b) if !f64::from_bits(*b).is_finite()));
		let no_f32 = !self.any(&|v| matches!(v, Val::F32(_)));
		let no_bytes = !self.any(&|v| matches!(v, Val::Bytes(_)));
		let no_null = !self.any(&|v| matches!(v, Val::Null));
		let ints_i64 = !self.any(&|v| matches!(v, Val::Int(i) if *i > i128::from(i64::MAX)));
		match f {
			Fmt::Msgpack => true,
			Fmt::Json => finite && no_bytes && self.all_keys_strings() && no_f32,
			Fmt::Yaml => no_bytes && no_f32,
			Fmt::Toml => {
				matches!(self, Val::Map(_)) && no_null && no_bytes && self.all_keys_strings() && ints_i64 && no_f32 && !self.has_dup_keys()
			}
		}
	}

	/// TOML's permitted reordering (the property's two groups): inside a table,
	/// non-table entries first, then table entries (tables and non-empty
	/// arrays of tables), each group keeping its input order.
	pub fn toml_reorder(&self) -> Val {
		fn table_like(v: &Val) -> bool {
			match v {
				Val::Map(_) => true,
				Val::Seq(xs) => !xs.is_empty() && xs.iter().all(|x| matches!(x, Val::Map(_))),
				_ => false,
			}
		}
		match self {
			Val::Seq(xs) => Val::Seq(xs.iter().map(Val::toml_reorder).collect()),
			Val::Map(m) => {
				let (b, a): (Vec<_>, Vec<_>) =
					m.iter().map(|(k, v)| (k.clone(), v.toml_reorder())).partition(|(_, v)| table_like(v));
				Val::Map(a.into_iter().chain(b).collect())
			}
			v => v.clone(),
		}
	}

	/// The entry order xt's TOML output actually has (mirror of the Lean model
	/// `Xt.TomlOrder.written`, which the `tomlorder` correspondence ties to
	/// the code; used only to recognise known finding K4): the root table is
	/// laid out in two groups; a table that becomes a `[section]` gets the
	/// `toml` crate's three serializer passes followed by toml_edit's
	/// key/values-before-sections layout; a table written inline gets the three
	/// passes only.
	pub fn toml_written_order(&self) -> Val {
		fn is_tbl(v: &Val) -> bool {
			matches!(v, Val::Map(_))
		}
		fn has_tbl(v: &Val) -> bool {
			matches!(v, Val::Seq(xs) if xs.iter().any(is_tbl))
		}
		fn is_aot(v: &Val) -> bool {
			matches!(v, Val::Seq(xs) if !xs.is_empty() && xs.iter().all(is_tbl))
		}
		fn part(l: Vec<(Val, Val)>) -> Vec<(Val, Val)> {
			let (b, a): (Vec<_>, Vec<_>) = l.into_iter().partition(|(_, v)| is_tbl(v) || is_aot(v));
			a.into_iter().chain(b).collect()
		}
		fn part3(l: Vec<(Val, Val)>) -> Vec<(Val, Val)> {
			let mut g: [Vec<(Val, Val)>; 3] = [vec![], vec![], vec![]];
			for e in l {
				let i = if is_tbl(&e.1) {
					2
				} else if has_tbl(&e.1) {
					1
				} else {
					0
				};
				g[i].push(e);
			}
			let [a, b, c] = g;
			a.into_iter().chain(b).chain(c).collect()
		}
		fn inline(v: &Val) -> Val {
			match v {
				Val::Seq(xs) => Val::Seq(xs.iter().map(inline).collect()),
				Val::Map(m) => Val::Map(part3(m.iter().map(|(k, x)| (k.clone(), inline(x))).collect())),
				v => v.clone(),
			}
		}
		fn section(v: &Val) -> Val {
			match v {
				Val::Seq(xs) if is_aot(v) => Val::Seq(xs.iter().map(section).collect()),
				Val::Seq(xs) => Val::Seq(xs.iter().map(inline).collect()),
				Val::Map(m) => Val::Map(part(part3(m.iter().map(|(k, x)| (k.clone(), section(x))).collect()))),
				v => v.clone(),
			}
		}
		match self {
			Val::Map(m) => Val::Map(part(m.iter().map(|(k, x)| (k.clone(), section(x))).collect())),
			v => v.clone(),
		}
	}

	pub fn short(&self) -> String {
		let s = format!("{self:?}");
		if s.len() > 300 {
			format!("{}…", &s.chars().take(300).collect::<String>())
		} else {
			s
		}
	}
}

// --------------------------------------------------------------------------- reading

impl<'de> Deserialize<'de> for Val {
	fn deserialize<D: Deserializer<'de>>(d: D) -> Result<Val, D::Error> {
		struct V;
		impl<'de> Visitor<'de> for V {
			type Value = Val;
			fn expecting(&self, f: &mut fmt::Formatter) -> fmt::Result {
				f.write_str("any value")
			}
			fn visit_unit<E>(self) -> Result<Val, E> {
				Ok(Val::Null)
			}
			fn visit_none<E>(self) -> Result<Val, E> {
				Ok(Val::Null)
			}
			fn visit_some<D: Deserializer<'de>>(self, d: D) -> Result<Val, D::Error> {
				Val::deserialize(d)
			}
			fn visit_bool<E>(self, v: bool) -> Result<Val, E> {
				Ok(Val::Bool(v))
			}
			fn visit_i64<E>(self, v: i64) -> Result<Val, E> {
				Ok(Val::Int(i128::from(v)))
			}
			fn visit_u64<E>(self, v: u64) -> Result<Val, E> {
				Ok(Val::Int(i128::from(v)))
			}
			fn visit_i128<E>(self, v: i128) -> Result<Val, E> {
				Ok(Val::Int(v))
			}
			fn visit_u128<E: de::Error>(self, v: u128) -> Result<Val, E> {
				i128::try_from(v).map(Val::Int).map_err(|_| E::custom("u128 too large"))
			}
			fn visit_f32<E>(self, v: f32) -> Result<Val, E> {
				Ok(Val::F32(if v.is_nan() { f32::NAN.to_bits() } else { v.to_bits() }))
			}
			fn visit_f64<E>(self, v: f64) -> Result<Val, E> {
				Ok(f64v(v))
			}
			fn visit_str<E>(self, v: &str) -> Result<Val, E> {
				Ok(Val::Str(v.to_string()))
			}
			fn visit_bytes<E>(self, v: &[u8]) -> Result<Val, E> {
				Ok(Val::Bytes(v.to_vec()))
			}
			fn visit_newtype_struct<D: Deserializer<'de>>(self, d: D) -> Result<Val, D::Error> {
				Val::deserialize(d)
			}
			fn visit_seq<A: SeqAccess<'de>>(self, mut a: A) -> Result<Val, A::Error> {
				let mut v = vec![];
				while let Some(x) = a.next_element()? {
					v.push(x);
				}
				Ok(Val::Seq(v))
			}
			fn visit_map<A: MapAccess<'de>>(self, mut a: A) -> Result<Val, A::Error> {
				let mut v = vec![];
				while let Some(e) = a.next_entry()? {
					v.push(e);
				}
				Ok(Val::Map(v))
			}
		}
		d.deserialize_any(V)
	}
}

fn from_toml(v: &toml::Value) -> Val {
	match v {
		toml::Value::String(s) => Val::Str(s.clone()),
		toml::Value::Integer(i) => Val::Int(i128::from(*i)),
		toml::Value::Float(f) => f64v(*f),
		toml::Value::Boolean(b) => Val::Bool(*b),
		toml::Value::Datetime(d) => Val::Str(format!("<datetime {d}>")),
		toml::Value::Array(a) => Val::Seq(a.iter().map(from_toml).collect()),
		toml::Value::Table(t) => Val::Map(t.iter().map(|(k, v)| (Val::Str(k.clone()), from_toml(v))).collect()),
	}
}

/// Reads every document of `bytes` with format `f`'s own crate.
pub fn read_docs(f: Fmt, bytes: &[u8]) -> Result<Vec<Val>, String> {
	match f {
		Fmt::Json => {
			let mut out = vec![];
			for v in serde_json::Deserializer::from_slice(bytes).into_iter::<Val>() {
				out.push(v.map_err(|e| e.to_string())?);
			}
			Ok(out)
		}
		Fmt::Msgpack => {
			let mut out = vec![];
			let mut rest = bytes;
			while !rest.is_empty() {
				let mut de = rmp_serde::Deserializer::new(&mut rest);
				out.push(Val::deserialize(&mut de).map_err(|e| e.to_string())?);
			}
			Ok(out)
		}
		Fmt::Yaml => {
			let s = std::str::from_utf8(bytes).map_err(|e| e.to_string())?;
			let mut out = vec![];
			for de in serde_yaml::Deserializer::from_str(s) {
				out.push(Val::deserialize(de).map_err(|e| e.to_string())?);
			}
			Ok(out)
		}
		Fmt::Toml => {
			let s = std::str::from_utf8(bytes).map_err(|e| e.to_string())?;
			let v: toml::Value = toml::from_str(s).map_err(|e| e.to_string())?;
			Ok(vec![from_toml(&v)])
		}
	}
}

// --------------------------------------------------------------------------- generating

pub const NASTY_STRINGS: &[&str] = &[
	"", " ", "  lead", "trail  ", "yes", "no", "on", "off", "y", "n", "~", "null", "Null", "NULL", "true", "True", "false",
	"1", "0", "-1", "1e3", "1.0", "0x1F", "0o17", "1_000", ".inf", "-.inf", ".nan", "+1", "2001-01-01", "2001-01-01T00:00:00Z",
	"12:30:45", "a: b", "- a", "# c", "[a]", "{a}", "a, b", "a #b", "'", "\"", "\\", "a\\nb", "a\nb", "a\r\nb", "\t", "a\tb", "\u{0}", "\u{1}",
	"\u{7}", "\u{8}", "\u{b}", "\u{c}", "\u{1b}", "\u{1f}", "\u{7f}", "\u{80}", "\u{85}", "\u{9f}", "\u{a0}", "\u{2028}", "\u{2029}", "\u{feff}",
	"\u{fffe}", "\u{ffff}", "\u{fffd}", "\u{10000}", "\u{1f600}", "\u{10ffff}", "\u{700}", "\u{7ff}", "\u{0700}x: 1", "é", "ß", "日本語",
	"|", ">", "!", "&a", "*a", "%", "@", "`", "?", ":", "-", "---", "...", "=", "key=value", "[table]", "a.b", "\"quoted\"", "'single'",
	"<<", "0.1", "1.", ".5", "1e", "e1", "Infinity", "NaN", "-0", "00", "0777", "1__0", "\u{feff}bom", " #", "a:", ":a",
];

pub const NASTY_INTS: &[i128] = &[
	0, 1, -1, 31, 32, -32, -33, 127, 128, -128, -129, 255, 256, 32767, 32768, -32768, -32769, 65535, 65536, 2147483647, 2147483648,
	-2147483648, -2147483649, 4294967295, 4294967296, 9007199254740991, 9007199254740992, 9007199254740993, 9223372036854775807,
	9223372036854775808, -9223372036854775807, -9223372036854775808, 18446744073709551614, 18446744073709551615,
];

pub const NASTY_F64_BITS: &[u64] = &[
	0x0000000000000000, // +0
	0x8000000000000000, // -0
	0x0000000000000001, // min subnormal
	0x000FFFFFFFFFFFFF, // max subnormal
	0x0010000000000000, // min normal
	0x7FEFFFFFFFFFFFFF, // max
	0xFFEFFFFFFFFFFFFF, // -max
	0x3FF0000000000000, // 1.0
	0x3FB999999999999A, // 0.1
	0x3FD5555555555555, // 1/3
	0x4340000000000000, // 2^53
	0x4340000000000001, // 2^53+2
	0x433FFFFFFFFFFFFF, // 2^53-1
	0x43E0000000000000, // 2^63
	0x43F0000000000000, // 2^64
	0xC3E0000000000000, // -2^63
	0x4059000000000000, // 100.0
	0x3E7AD7F29ABCAF48, // 1e-7
	0x444B1AE4D6E2EF50, // 1e21
	0xD2433B8B1B8D5A0E, // -1.5432835417340557e+88 class
	0x7E37E43C8800759C, // 1e300
	0x01A56E1FC2F8F359, // 1e-300
];

#[derive(Clone, Copy, Debug)]
pub struct GenOpts {
	pub max_depth: usize,
	pub max_width: usize,
	pub null: bool,
	pub floats: bool,
	pub nonfinite: bool,
	pub f32s: bool,
	pub bytes: bool,
	pub nonstring_keys: bool,
	pub big_ints: bool,
	pub root_collection: bool,
	pub root_map: bool,
	pub nasty_strings: bool,
}

impl GenOpts {
	/// The common data model of C01.
	pub fn cdm() -> GenOpts {
		GenOpts {
			max_depth: 4,
			max_width: 4,
			null: true,
			floats: true,
			nonfinite: false,
			f32s: false,
			bytes: false,
			nonstring_keys: false,
			big_ints: true,
			root_collection: false,
			root_map: false,
			nasty_strings: true,
		}
	}
	/// Restricts options to what every format in `fmts` can represent.
	pub fn for_formats(mut self, fmts: &[Fmt]) -> GenOpts {
		for f in fmts {
			match f {
				Fmt::Toml => {
					self.null = false;
					self.big_ints = false;
					self.root_map = true;
					self.nonfinite = self.nonfinite; // TOML has inf/nan
					self.bytes = false;
					self.nonstring_keys = false;
					self.f32s = false;
				}
				Fmt::Json => {
					self.nonfinite = false;
					self.bytes = false;
					self.nonstring_keys = false;
					self.f32s = false;
				}
				Fmt::Yaml => {
					self.bytes = false;
					self.f32s = false;
				}
				Fmt::Msgpack => {}
			}
		}
		self
	}
}

pub fn gen_string(rng: &mut Rng, nasty: bool) -> String {
	if nasty && rng.chance(2, 5) {
		return rng.pick(NASTY_STRINGS).to_string();
	}
	let len = match rng.below(10) {
		0 => 0,
		1..=6 => rng.range(1, 8),
		7..=8 => rng.range(8, 40),
		_ => rng.range(40, 300),
	} as usize;
	let mut s = String::new();
	for _ in 0..len {
		let c = loop {
			let c = match rng.below(12) {
				0..=6 => rng.range(0x20, 0x7E) as u32,
				7 => rng.range(0, 0x1F) as u32,
				8 => rng.range(0x7F, 0x7FF) as u32,
				9 => rng.range(0x800, 0xFFFF) as u32,
				10 => rng.range(0x10000, 0x10FFFF) as u32,
				_ => *rng.pick(&[0x22u32, 0x5C, 0x27, 0x0A, 0x0D, 0x09, 0x2028, 0x2029, 0xFEFF, 0xFFFE, 0xFFFF, 0x85, 0xA0, 0x7F, 0x0]),
			};
			if let Some(c) = char::from_u32(c) {
				break c;
			}
		};
		s.push(c);
	}
	s
}

pub fn gen_int(rng: &mut Rng, big: bool) -> i128 {
	loop {
		let v = match rng.below(6) {
			0..=1 => *rng.pick(NASTY_INTS),
			2 => i128::from(rng.below(200)) - 100,
			3 => {
				let b = *rng.pick(NASTY_INTS);
				b + i128::from(rng.below(3)) - 1
			}
			4 => i128::from(rng.next() as i64),
			_ => i128::from(rng.next()),
		};
		if v < -(1i128 << 63) || v > (1i128 << 64) - 1 {
			continue;
		}
		if !big && v > i128::from(i64::MAX) {
			continue;
		}
		return v;
	}
}

pub fn gen_f64(rng: &mut Rng, nonfinite: bool) -> u64 {
	loop {
		let bits = match rng.below(5) {
			0 => *rng.pick(NASTY_F64_BITS),
			1 => (rng.below(2000) as f64 / 8.0 - 100.0).to_bits(),
			2 => {
				// 17-significant-digit territory
				let m = rng.next() >> 11;
				let e = rng.range(1, 2046);
				(rng.below(2) << 63) | (e << 52) | (m & ((1 << 52) - 1))
			}
			3 => rng.next(),
			_ => ((rng.next() as i64) as f64 * 0.001).to_bits(),
		};
		let x = f64::from_bits(bits);
		if x.is_nan() {
			if nonfinite {
				return f64::NAN.to_bits();
			}
			continue;
		}
		if x.is_infinite() && !nonfinite {
			continue;
		}
		return bits;
	}
}

fn gen_scalar(rng: &mut Rng, o: &GenOpts) -> Val {
	loop {
		match rng.below(10) {
			0 if o.null => return Val::Null,
			1 => return Val::Bool(rng.chance(1, 2)),
			2..=3 => return Val::Int(gen_int(rng, o.big_ints)),
			4 if o.floats => return Val::F64(gen_f64(rng, o.nonfinite)),
			5 if o.floats && o.nonfinite && rng.chance(1, 3) => {
				return f64v(*rng.pick(&[f64::INFINITY, f64::NEG_INFINITY, f64::NAN]));
			}
			6 if o.bytes => {
				let n = rng.below(12) as usize;
				return Val::Bytes((0..n).map(|_| rng.below(256) as u8).collect());
			}
			7 if o.f32s => return Val::F32((rng.below(2000) as f32 / 7.0).to_bits()),
			8..=9 => return Val::Str(gen_string(rng, o.nasty_strings)),
			_ => {}
		}
	}
}

fn gen_key(rng: &mut Rng, o: &GenOpts, used: &mut Vec<Val>) -> Val {
	for _ in 0..50 {
		let k = if o.nonstring_keys && rng.chance(1, 3) {
			match rng.below(3) {
				0 => Val::Int(gen_int(rng, false)),
				1 => Val::Bool(rng.chance(1, 2)),
				_ => Val::Null,
			}
		} else {
			Val::Str(gen_string(rng, o.nasty_strings))
		};
		if !used.contains(&k) {
			used.push(k.clone());
			return k;
		}
	}
	let k = Val::Str(format!("k{}", used.len()));
	used.push(k.clone());
	k
}

fn gen_node(rng: &mut Rng, o: &GenOpts, depth: usize) -> Val {
	if depth >= o.max_depth || rng.chance(2, 5) {
		return gen_scalar(rng, o);
	}
	let width = match rng.below(8) {
		0 => 0,
		1 => 1,
		_ => rng.range(1, o.max_width as u64) as usize,
	};
	if rng.chance(1, 2) {
		Val::Seq((0..width).map(|_| gen_node(rng, o, depth + 1)).collect())
	} else {
		let mut used = vec![];
		Val::Map((0..width).map(|_| (gen_key(rng, o, &mut used), gen_node(rng, o, depth + 1))).collect())
	}
}

/// Generates one document.
pub fn gen_doc(rng: &mut Rng, o: &GenOpts) -> Val {
	if o.root_map {
		let width = rng.range(0, o.max_width as u64) as usize;
		let mut used = vec![];
		return Val::Map((0..width).map(|_| (gen_key(rng, o, &mut used), gen_node(rng, o, 1))).collect());
	}
	loop {
		let v = gen_node(rng, o, 0);
		if !o.root_collection || v.is_collection() {
			return v;
		}
	}
}

/// A document nested `depth` deep along one spine (for depth-64 coverage).
pub fn gen_deep(rng: &mut Rng, o: &GenOpts, depth: usize) -> Val {
	let mut v = gen_scalar(rng, o);
	for i in 0..depth {
		v = if rng.chance(1, 2) && !(o.root_map && i + 1 == depth) {
			Val::Seq(vec![v])
		} else {
			Val::Map(vec![(Val::Str(format!("k{}", i % 7)), v)])
		};
	}
	v
}

// --------------------------------------------------------------------------- spelling

#[derive(Clone, Copy, Debug, Default)]
pub struct Spelling {
	/// 0 = canonical/compact; higher values pick alternative spellings using `salt`.
	pub level: u8,
	pub salt: u64,
}

impl Spelling {
	pub fn plain() -> Spelling {
		Spelling { level: 0, salt: 0 }
	}
	pub fn random(rng: &mut Rng) -> Spelling {
		Spelling { level: rng.below(3) as u8, salt: rng.next() }
	}
	fn coin(&self, site: u64, n: u64) -> u64 {
		if self.level == 0 {
			return 0;
		}
		let mut r = Rng(self.salt ^ site.wrapping_mul(0x9E3779B97F4A7C15));
		r.below(n)
	}
}

fn f64_text(bits: u64, salt: u64) -> String {
	let x = f64::from_bits(bits);
	let mut s = match salt % 3 {
		0 => format!("{x:?}"),
		1 => format!("{x:e}"),
		_ => format!("{x:.17e}"),
	};
	if !s.contains('.') && !s.contains('e') && !s.contains("inf") && !s.contains("NaN") {
		s.push_str(".0");
	}
	s
}

fn json_string(s: &str, sp: &Spelling, site: &mut u64, out: &mut String) {
	out.push('"');
	for c in s.chars() {
		*site += 1;
		let style = sp.coin(*site, 6);
		let cu = c as u32;
		let must_escape = c == '"' || c == '\\' || cu < 0x20;
		if style == 1 || (must_escape && !matches!(c, '"' | '\\' | '\n' | '\r' | '\t' | '\u{8}' | '\u{c}')) || (must_escape && style == 2) {
			// \uXXXX (surrogate pair for astral)
			let mut buf = [0u16; 2];
			for u in c.encode_utf16(&mut buf) {
				if style == 2 || sp.coin(*site + 7, 2) == 0 {
					out.push_str(&format!("\\u{u:04x}"));
				} else {
					out.push_str(&format!("\\u{u:04X}"));
				}
			}
		} else if must_escape {
			out.push_str(match c {
				'"' => "\\\"",
				'\\' => "\\\\",
				'\n' => "\\n",
				'\r' => "\\r",
				'\t' => "\\t",
				'\u{8}' => "\\b",
				_ => "\\f",
			});
		} else if c == '/' && style == 3 {
			out.push_str("\\/");
		} else {
			out.push(c);
		}
	}
	out.push('"');
}

fn ws(sp: &Spelling, site: &mut u64, out: &mut String) {
	*site += 1;
	match sp.coin(*site, 8) {
		1 => out.push(' '),
		2 => out.push('\n'),
		3 => out.push_str(" \t"),
		4 => out.push_str("\r\n"),
		_ => {}
	}
}

fn json_into(v: &Val, sp: &Spelling, site: &mut u64, out: &mut String) -> bool {
	match v {
		Val::Null => out.push_str("null"),
		Val::Bool(b) => out.push_str(if *b { "true" } else { "false" }),
		Val::Int(i) => out.push_str(&i.to_string()),
		Val::F64(b) => {
			let x = f64::from_bits(*b);
			if !x.is_finite() {
				return false;
			}
			*site += 1;
			let mut t = f64_text(*b, if sp.level == 0 { 0 } else { sp.coin(*site, 3) });
			if sp.coin(*site + 1, 4) == 1 {
				t = t.replace('e', "E");
			}
			if sp.coin(*site + 2, 5) == 1 && t.contains('e') && !t.contains("e-") {
				t = t.replace('e', "e+");
			}
			out.push_str(&t);
		}
		Val::F32(_) | Val::Bytes(_) => return false,
		Val::Str(s) => json_string(s, sp, site, out),
		Val::Seq(xs) => {
			out.push('[');
			for (i, x) in xs.iter().enumerate() {
				if i > 0 {
					out.push(',');
				}
				ws(sp, site, out);
				if !json_into(x, sp, site, out) {
					return false;
				}
				ws(sp, site, out);
			}
			if xs.is_empty() {
				ws(sp, site, out);
			}
			out.push(']');
		}
		Val::Map(m) => {
			out.push('{');
			for (i, (k, x)) in m.iter().enumerate() {
				if i > 0 {
					out.push(',');
				}
				ws(sp, site, out);
				match k {
					Val::Str(s) => json_string(s, sp, site, out),
					_ => return false,
				}
				ws(sp, site, out);
				out.push(':');
				ws(sp, site, out);
				if !json_into(x, sp, site, out) {
					return false;
				}
				ws(sp, site, out);
			}
			if m.is_empty() {
				ws(sp, site, out);
			}
			out.push('}');
		}
	}
	true
}

pub fn to_json(v: &Val, sp: &Spelling) -> Option<String> {
	let mut s = String::new();
	let mut site = 0;
	if json_into(v, sp, &mut site, &mut s) {
		Some(s)
	} else {
		None
	}
}

fn mp_len(out: &mut Vec<u8>, n: usize, fix: Option<(u8, usize)>, m8: Option<u8>, m16: u8, m32: u8, widen: u64) {
	let mut level = if fix.is_some() && n <= fix.unwrap().1 {
		0
	} else if m8.is_some() && n < 256 {
		1
	} else if n < 65536 {
		2
	} else {
		3
	};
	level = (level + widen as usize).min(3);
	if level == 1 && m8.is_none() {
		level = 2;
	}
	match level {
		0 => out.push(fix.unwrap().0 | n as u8),
		1 => {
			out.push(m8.unwrap());
			out.push(n as u8);
		}
		2 => {
			out.push(m16);
			out.extend_from_slice(&(n as u16).to_be_bytes());
		}
		_ => {
			out.push(m32);
			out.extend_from_slice(&(n as u32).to_be_bytes());
		}
	}
}

fn mp_into(v: &Val, sp: &Spelling, site: &mut u64, out: &mut Vec<u8>) {
	*site += 1;
	let widen = match sp.coin(*site, 4) {
		1 => 1,
		2 => 2,
		_ => 0,
	};
	match v {
		Val::Null => out.push(0xc0),
		Val::Bool(b) => out.push(if *b { 0xc3 } else { 0xc2 }),
		Val::Int(i) => {
			let i = *i;
			if i >= 0 {
				let u = i as u64;
				let mut level = if u < 128 {
					0
				} else if u < 256 {
					1
				} else if u < 65536 {
					2
				} else if u < (1 << 32) {
					3
				} else {
					4
				};
				level = (level + widen as usize).min(4);
				// Optionally spell a small non-negative integer with a signed marker.
				let signed = sp.coin(*site + 3, 5) == 1 && i <= i128::from(i64::MAX);
				match (level, signed) {
					(0, false) => out.push(u as u8),
					(1, false) => {
						out.push(0xcc);
						out.push(u as u8);
					}
					(2, false) => {
						out.push(0xcd);
						out.extend_from_slice(&(u as u16).to_be_bytes());
					}
					(3, false) => {
						out.push(0xce);
						out.extend_from_slice(&(u as u32).to_be_bytes());
					}
					(_, false) => {
						out.push(0xcf);
						out.extend_from_slice(&u.to_be_bytes());
					}
					(_, true) => {
						out.push(0xd3);
						out.extend_from_slice(&(u as i64).to_be_bytes());
					}
				}
			} else {
				let s = i as i64;
				let mut level = if s >= -32 {
					0
				} else if s >= -128 {
					1
				} else if s >= -32768 {
					2
				} else if s >= -(1 << 31) {
					3
				} else {
					4
				};
				level = (level + widen as usize).min(4);
				match level {
					0 => out.push(s as i8 as u8),
					1 => {
						out.push(0xd0);
						out.push(s as i8 as u8);
					}
					2 => {
						out.push(0xd1);
						out.extend_from_slice(&(s as i16).to_be_bytes());
					}
					3 => {
						out.push(0xd2);
						out.extend_from_slice(&(s as i32).to_be_bytes());
					}
					_ => {
						out.push(0xd3);
						out.extend_from_slice(&s.to_be_bytes());
					}
				}
			}
		}
		Val::F64(b) => {
			out.push(0xcb);
			out.extend_from_slice(&b.to_be_bytes());
		}
		Val::F32(b) => {
			out.push(0xca);
			out.extend_from_slice(&b.to_be_bytes());
		}
		Val::Str(s) => {
			mp_len(out, s.len(), Some((0xa0, 31)), Some(0xd9), 0xda, 0xdb, widen);
			out.extend_from_slice(s.as_bytes());
		}
		Val::Bytes(b) => {
			mp_len(out, b.len(), None, Some(0xc4), 0xc5, 0xc6, widen);
			out.extend_from_slice(b);
		}
		Val::Seq(xs) => {
			mp_len(out, xs.len(), Some((0x90, 15)), None, 0xdc, 0xdd, widen);
			for x in xs {
				mp_into(x, sp, site, out);
			}
		}
		Val::Map(m) => {
			mp_len(out, m.len(), Some((0x80, 15)), None, 0xde, 0xdf, widen);
			for (k, x) in m {
				mp_into(k, sp, site, out);
				mp_into(x, sp, site, out);
			}
		}
	}
}

pub fn to_msgpack(v: &Val, sp: &Spelling) -> Vec<u8> {
	let mut out = vec![];
	let mut site = 0;
	mp_into(v, sp, &mut site, &mut out);
	out
}

fn yaml_dq(s: &str, out: &mut String) {
	out.push('"');
	for c in s.chars() {
		let cu = c as u32;
		match c {
			'"' => out.push_str("\\\""),
			'\\' => out.push_str("\\\\"),
			'\n' => out.push_str("\\n"),
			'\r' => out.push_str("\\r"),
			'\t' => out.push_str("\\t"),
			'\0' => out.push_str("\\0"),
			_ if cu < 0x20 || cu == 0x7F || (0x80..=0x9F).contains(&cu) => out.push_str(&format!("\\x{cu:02x}")),
			'\u{2028}' | '\u{2029}' | '\u{feff}' | '\u{fffe}' | '\u{ffff}' | '\u{a0}' => out.push_str(&format!("\\u{cu:04x}")),
			_ if cu > 0xFFFF && (cu & 0xFFFE) == 0xFFFE => out.push_str(&format!("\\U{cu:08x}")),
			_ => out.push(c),
		}
	}
	out.push('"');
}

fn yaml_plain_ok(s: &str) -> bool {
	let b = s.as_bytes();
	!b.is_empty()
		&& b.len() < 30
		&& b[0].is_ascii_lowercase()
		&& b.iter().all(|c| c.is_ascii_lowercase() || c.is_ascii_digit() || *c == b'_')
		&& !matches!(s, "true" | "false" | "null" | "nan" | "inf" | "y" | "n" | "yes" | "no" | "on" | "off")
}

fn yaml_sq_ok(s: &str) -> bool {
	!s.is_empty() && s.chars().all(|c| (' '..='~').contains(&c) && c != '\'') && !s.starts_with(' ') && !s.ends_with(' ')
}

fn yaml_scalar(v: &Val, sp: &Spelling, site: &mut u64, out: &mut String) -> bool {
	*site += 1;
	match v {
		Val::Null => out.push_str(if sp.coin(*site, 3) == 1 { "~" } else { "null" }),
		Val::Bool(b) => out.push_str(if *b { "true" } else { "false" }),
		Val::Int(i) => out.push_str(&i.to_string()),
		Val::F64(b) => {
			let x = f64::from_bits(*b);
			if x.is_nan() {
				out.push_str(".nan");
			} else if x.is_infinite() {
				out.push_str(if x > 0.0 { ".inf" } else { "-.inf" });
			} else {
				out.push_str(&f64_text(*b, if sp.level == 0 { 0 } else { sp.coin(*site, 3) }));
			}
		}
		Val::Str(s) => match sp.coin(*site, 4) {
			1 if yaml_plain_ok(s) => out.push_str(s),
			2 if yaml_sq_ok(s) => {
				out.push('\'');
				out.push_str(s);
				out.push('\'');
			}
			_ => yaml_dq(s, out),
		},
		_ => return false,
	}
	true
}

fn yaml_flow(v: &Val, sp: &Spelling, site: &mut u64, out: &mut String) -> bool {
	match v {
		Val::Seq(xs) => {
			out.push('[');
			for (i, x) in xs.iter().enumerate() {
				if i > 0 {
					out.push_str(", ");
				}
				if !yaml_flow(x, sp, site, out) {
					return false;
				}
			}
			out.push(']');
			true
		}
		Val::Map(m) => {
			out.push('{');
			for (i, (k, x)) in m.iter().enumerate() {
				if i > 0 {
					out.push_str(", ");
				}
				if k.is_collection() {
					out.push_str("? ");
				}
				if !yaml_flow(k, sp, site, out) {
					return false;
				}
				out.push_str(": ");
				if !yaml_flow(x, sp, site, out) {
					return false;
				}
			}
			out.push('}');
			true
		}
		Val::Bytes(_) | Val::F32(_) => false,
		s => yaml_scalar(s, sp, site, out),
	}
}

fn yaml_block(v: &Val, sp: &Spelling, site: &mut u64, indent: usize, out: &mut String) -> bool {
	// Emits `v` as a block node starting on a fresh line at `indent`.
	let pad = " ".repeat(indent);
	*site += 1;
	match v {
		Val::Seq(xs) if !xs.is_empty() && sp.coin(*site, 3) != 1 => {
			for x in xs {
				out.push_str(&pad);
				out.push('-');
				if x.is_collection() && !is_empty_coll(x) && sp.coin(*site + 11, 2) == 0 {
					out.push('\n');
					if !yaml_block(x, sp, site, indent + 2, out) {
						return false;
					}
				} else {
					out.push(' ');
					if !yaml_flow(x, sp, site, out) {
						return false;
					}
					out.push('\n');
				}
			}
			true
		}
		Val::Map(m) if !m.is_empty() && sp.coin(*site, 3) != 1 && m.iter().all(|(k, _)| !k.is_collection()) => {
			for (k, x) in m {
				out.push_str(&pad);
				if !yaml_flow(k, sp, site, out) {
					return false;
				}
				out.push(':');
				if x.is_collection() && !is_empty_coll(x) && sp.coin(*site + 13, 2) == 0 {
					out.push('\n');
					if !yaml_block(x, sp, site, indent + 2, out) {
						return false;
					}
				} else {
					out.push(' ');
					if !yaml_flow(x, sp, site, out) {
						return false;
					}
					out.push('\n');
				}
			}
			true
		}
		other => {
			out.push_str(&pad);
			if !yaml_flow(other, sp, site, out) {
				return false;
			}
			out.push('\n');
			true
		}
	}
}

fn is_empty_coll(v: &Val) -> bool {
	matches!(v, Val::Seq(x) if x.is_empty()) || matches!(v, Val::Map(x) if x.is_empty())
}

/// One YAML document (no `---`), ending in a newline.
pub fn to_yaml(v: &Val, sp: &Spelling) -> Option<String> {
	let mut s = String::new();
	let mut site = 0;
	let ok = if sp.level == 0 {
		let r = yaml_flow(v, sp, &mut site, &mut s);
		s.push('\n');
		r
	} else {
		yaml_block(v, sp, &mut site, 0, &mut s)
	};
	if !ok {
		return None;
	}
	// Spelling: the whole document indented by 1–3 spaces (block structure
	// depends only on relative columns).
	let k = match sp.coin(0x1d17, 4) {
		1 => 1,
		2 => 2,
		3 => 3,
		_ => 0,
	};
	if k > 0 && sp.level > 0 {
		let pad = " ".repeat(k);
		s = s.lines().map(|l| format!("{pad}{l}\n")).collect();
	}
	Some(s)
}

fn toml_key(k: &str, out: &mut String) {
	if !k.is_empty() && k.bytes().all(|c| c.is_ascii_alphanumeric() || c == b'_' || c == b'-') {
		out.push_str(k);
	} else {
		toml_string(k, out);
	}
}

fn toml_string(s: &str, out: &mut String) {
	out.push('"');
	for c in s.chars() {
		let cu = c as u32;
		match c {
			'"' => out.push_str("\\\""),
			'\\' => out.push_str("\\\\"),
			'\n' => out.push_str("\\n"),
			'\r' => out.push_str("\\r"),
			'\t' => out.push_str("\\t"),
			_ if cu < 0x20 || cu == 0x7F => out.push_str(&format!("\\u{cu:04x}")),
			_ => out.push(c),
		}
	}
	out.push('"');
}

fn toml_inline(v: &Val, sp: &Spelling, site: &mut u64, out: &mut String) -> bool {
	*site += 1;
	match v {
		Val::Bool(b) => out.push_str(if *b { "true" } else { "false" }),
		Val::Int(i) => {
			if *i > i128::from(i64::MAX) || *i < i128::from(i64::MIN) {
				return false;
			}
			out.push_str(&i.to_string());
		}
		Val::F64(b) => {
			let x = f64::from_bits(*b);
			if x.is_nan() {
				out.push_str("nan");
			} else if x.is_infinite() {
				out.push_str(if x > 0.0 { "inf" } else { "-inf" });
			} else {
				out.push_str(&f64_text(*b, if sp.level == 0 { 0 } else { sp.coin(*site, 3) }));
			}
		}
		Val::Str(s) => toml_string(s, out),
		Val::Seq(xs) => {
			out.push('[');
			for (i, x) in xs.iter().enumerate() {
				if i > 0 {
					out.push_str(", ");
				}
				if !toml_inline(x, sp, site, out) {
					return false;
				}
			}
			out.push(']');
		}
		Val::Map(m) => {
			out.push('{');
			for (i, (k, x)) in m.iter().enumerate() {
				if i > 0 {
					out.push_str(", ");
				}
				match k {
					Val::Str(k) => toml_key(k, out),
					_ => return false,
				}
				out.push_str(" = ");
				if !toml_inline(x, sp, site, out) {
					return false;
				}
			}
			out.push('}');
		}
		_ => return false,
	}
	true
}

/// A TOML document for a map-rooted value (`key = inline-value` lines; at
/// spelling level > 0 top-level tables that come last are written as
/// `[section]`s).
pub fn to_toml(v: &Val, sp: &Spelling) -> Option<String> {
	let Val::Map(m) = v else { return None };
	let mut s = String::new();
	let mut site = 0;
	// Trailing run of plain-map values can be spelled as sections.
	let mut split = m.len();
	if sp.level > 0 {
		while split > 0 && matches!(&m[split - 1].1, Val::Map(_)) {
			split -= 1;
		}
	}
	for (k, x) in &m[..split] {
		match k {
			Val::Str(k) => toml_key(k, &mut s),
			_ => return None,
		}
		s.push_str(" = ");
		if !toml_inline(x, sp, &mut site, &mut s) {
			return None;
		}
		s.push('\n');
	}
	for (k, x) in &m[split..] {
		s.push('[');
		match k {
			Val::Str(k) => toml_key(k, &mut s),
			_ => return None,
		}
		s.push_str("]\n");
		let Val::Map(inner) = x else { return None };
		for (k2, x2) in inner {
			match k2 {
				Val::Str(k2) => toml_key(k2, &mut s),
				_ => return None,
			}
			s.push_str(" = ");
			if !toml_inline(x2, sp, &mut site, &mut s) {
				return None;
			}
			s.push('\n');
		}
	}
	Some(s)
}

/// Spells one document in format `f`; `None` if `f` cannot represent it.
pub fn spell(f: Fmt, v: &Val, sp: &Spelling) -> Option<Vec<u8>> {
	if !v.representable(f) {
		return None;
	}
	match f {
		Fmt::Json => to_json(v, sp).map(String::into_bytes),
		Fmt::Msgpack => Some(to_msgpack(v, sp)),
		Fmt::Yaml => to_yaml(v, sp).map(String::into_bytes),
		Fmt::Toml => to_toml(v, sp).map(String::into_bytes),
	}
}

/// Spells `v` in `f` and checks, with `f`'s own reader (never xt), that the
/// text denotes `v`; returns `None` (a dropped generator case) otherwise.
pub fn spell_checked(f: Fmt, v: &Val, sp: &Spelling) -> Option<Vec<u8>> {
	let bytes = spell(f, v, sp)?;
	match read_docs(f, &bytes) {
		Ok(docs) if docs.len() == 1 && &docs[0] == v => Some(bytes),
		_ => None,
	}
}

/// Concatenates documents of a streaming format with a legal separator.
pub fn join_stream(f: Fmt, docs: &[Vec<u8>], rng: &mut Rng) -> Vec<u8> {
	let mut out = vec![];
	for (i, d) in docs.iter().enumerate() {
		match f {
			Fmt::Json => {
				if i > 0 {
					// A separator is always emitted between JSON values here;
					// unseparated scalars are the known K1 class and are
					// generated explicitly where wanted.
					out.extend_from_slice(*rng.pick::<&[u8]>(&[b"\n", b" ", b"\n\n", b"\t", b"\r\n"]));
				}
				out.extend_from_slice(d);
			}
			Fmt::Msgpack => out.extend_from_slice(d),
			Fmt::Yaml => {
				if i > 0 || rng.chance(1, 2) {
					out.extend_from_slice(*rng.pick::<&[u8]>(&[b"---\n", b"--- # c\n", b"...\n---\n"]));
				}
				out.extend_from_slice(d);
			}
			Fmt::Toml => out.extend_from_slice(d),
		}
	}
	if f == Fmt::Json && rng.chance(1, 2) {
		out.push(b'\n');
	}
	out
}

/// Structure-unaware mutations of a byte string.
pub fn mutate(bytes: &[u8], rng: &mut Rng) -> Vec<u8> {
	let mut v = bytes.to_vec();
	match rng.below(7) {
		0 if !v.is_empty() => {
			let n = rng.below(v.len() as u64) as usize;
			v.truncate(n);
		}
		1 if !v.is_empty() => {
			let i = rng.below(v.len() as u64) as usize;
			v[i] ^= 1 << rng.below(8);
		}
		2 if !v.is_empty() => {
			let i = rng.below(v.len() as u64) as usize;
			v.remove(i);
		}
		3 => {
			let i = rng.below(v.len() as u64 + 1) as usize;
			v.insert(i, rng.below(256) as u8);
		}
		4 if v.len() > 1 => {
			let i = rng.below(v.len() as u64) as usize;
			let j = rng.below(v.len() as u64) as usize;
			let (a, b) = (i.min(j), i.max(j));
			let piece: Vec<u8> = v[a..b].to_vec();
			let at = rng.below(v.len() as u64 + 1) as usize;
			for (k, x) in piece.into_iter().enumerate() {
				v.insert(at + k, x);
			}
		}
		5 if !v.is_empty() => {
			let i = rng.below(v.len() as u64) as usize;
			v[i] = *rng.pick(&[0u8, 0xff, 0x80, 0x90, 0xdc, 0xc1, b'"', b'\\', b'{', b'[', b'\n', b':', b',']);
		}
		_ => {
			let n = rng.below(12) as usize;
			v = (0..n).map(|_| rng.below(256) as u8).collect();
		}
	}
	v
}

// --------------------------------------------------------------------------- shrinking

fn shrink_candidates(v: &Val) -> Vec<Val> {
	let mut c = vec![];
	match v {
		Val::Seq(xs) if xs.len() > 24 => {
			// Large collections: drop halves / quarters only (element-wise
			// candidates would be quadratic in memory).
			let n = xs.len();
			for (a, b) in [(0, n / 2), (n / 2, n), (0, n / 4), (n - n / 4, n), (0, 1), (n - 1, n)] {
				let mut y = xs.clone();
				y.drain(a..b);
				c.push(Val::Seq(y));
			}
		}
		Val::Map(m) if m.len() > 24 => {
			let n = m.len();
			for (a, b) in [(0, n / 2), (n / 2, n), (0, n / 4), (n - n / 4, n), (0, 1), (n - 1, n)] {
				let mut y = m.clone();
				y.drain(a..b);
				c.push(Val::Map(y));
			}
		}
		Val::Seq(xs) => {
			for i in 0..xs.len() {
				let mut y = xs.clone();
				y.remove(i);
				c.push(Val::Seq(y));
			}
			for (i, x) in xs.iter().enumerate() {
				for s in shrink_candidates(x) {
					let mut y = xs.clone();
					y[i] = s;
					c.push(Val::Seq(y));
				}
			}
		}
		Val::Map(m) => {
			for i in 0..m.len() {
				let mut y = m.clone();
				y.remove(i);
				c.push(Val::Map(y));
			}
			for (i, (k, x)) in m.iter().enumerate() {
				if let Val::Str(s) = k {
					if s.chars().count() > 1 {
						let mut y = m.clone();
						y[i].0 = Val::Str(s.chars().take(1).collect());
						c.push(Val::Map(y));
						let mut y = m.clone();
						y[i].0 = Val::Str(s.chars().skip(1).collect());
						c.push(Val::Map(y));
					} else if s != "a" && s != "b" && s != "c" {
						for r in ["a", "b", "c"] {
							let mut y = m.clone();
							y[i].0 = Val::Str(r.to_string());
							c.push(Val::Map(y));
						}
					}
				}
				for s in shrink_candidates(x) {
					let mut y = m.clone();
					y[i].1 = s;
					c.push(Val::Map(y));
				}
			}
		}
		Val::Str(s) if !s.is_empty() => {
			c.push(Val::Str(String::new()));
			c.push(Val::Str(s.chars().take(s.chars().count() / 2).collect()));
			c.push(Val::Str(s.chars().skip(1).collect()));
		}
		Val::Int(i) if *i != 0 => {
			c.push(Val::Int(0));
			c.push(Val::Int(i / 2));
		}
		Val::F64(b) if *b != 0 => c.push(Val::F64(0)),
		_ => {}
	}
	c
}

/// Greedy shrinking: the smallest value (by debug length) reachable through
/// single-step simplifications that still satisfies `still_fails`.
pub fn shrink(v: &Val, still_fails: &mut dyn FnMut(&Val) -> bool) -> Val {
	let mut cur = v.clone();
	let mut budget = 2000;
	loop {
		let mut improved = false;
		for cand in shrink_candidates(&cur) {
			if budget == 0 {
				return cur;
			}
			budget -= 1;
			if still_fails(&cand) {
				cur = cand;
				improved = true;
				break;
			}
		}
		if !improved {
			return cur;
		}
	}
}
