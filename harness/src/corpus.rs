//! Shared input corpus: valid single- and multi-document streams of each
//! format, their mutated / truncated / spliced variants, exhaustive short
//! token sequences over each format's alphabet, adversarial first bytes, and
//! random bytes. Deterministic in the `Rng` passed in.

use crate::engines::encoding::encode_text;
use crate::gen::{gen_doc, join_stream, mutate, spell, GenOpts, Spelling, Val};
use crate::util::Rng;
use crate::xtapi::{Fmt, ALL_FMTS};

pub struct Item {
	pub label: String,
	pub bytes: Vec<u8>,
}

fn push(v: &mut Vec<Item>, label: &str, bytes: Vec<u8>) {
	v.push(Item { label: label.to_string(), bytes });
}

pub fn valid_stream(rng: &mut Rng, f: Fmt, max_docs: u64) -> Vec<u8> {
	let opts = GenOpts::cdm().for_formats(&[f]);
	let n = if f == Fmt::Toml { 1 } else { rng.range(1, max_docs) };
	let mut docs = vec![];
	for _ in 0..n {
		let mut o = opts;
		// Mostly collection roots (detectable), sometimes scalars.
		o.root_collection = rng.chance(3, 4);
		let v = gen_doc(rng, &o);
		let sp = Spelling::random(rng);
		if let Some(b) = spell(f, &v, &sp) {
			docs.push(b);
		}
	}
	join_stream(f, &docs, rng)
}

const JSON_TOKENS: &[&[u8]] = &[
	b"{", b"}", b"[", b"]", b",", b":", b"\"a\"", b"\"", b"\\", b"true", b"false", b"null", b"0", b"-1", b"1.5", b"1e5", b" ", b"\n",
];
const YAML_TOKENS: &[&[u8]] = &[
	b"- ", b"a", b": ", b":", b"---", b"...", b"\n", b"  ", b"# c", b"&x ", b"*x", b"[", b"]", b"{", b"}", b",", b"\"", b"'", b"|", b"? ", b"!t ", b"%YAML 1.2",
];
const TOML_TOKENS: &[&[u8]] = &[b"[", b"]", b"a", b"=", b" ", b"\"", b".", b"\n", b"1", b"true", b"{", b"}", b",", b"#", b"'", b"2001-01-01"];
const MSGPACK_TOKENS: &[&[u8]] = &[
	b"\x90", b"\x91", b"\x92", b"\x80", b"\x81", b"\x82", b"\xc0", b"\xc1", b"\xc3", b"\x01", b"\xa1a", b"\xa0", b"\xdc\x00\x01", b"\xde\x00\x01", b"\xdd\x00\x00\x00\x01",
	b"\xdf\x00\x00\x00\x01", b"\xcc", b"\xd9\x01", b"\xc4\x01", b"\xff", b"\xdc", b"\xca\x00\x00\x00\x00", b"\xd4\x01\x02",
];

fn token_sequences(v: &mut Vec<Item>, rng: &mut Rng, label: &str, toks: &[&[u8]], max_len: usize, sample_per_len: Option<usize>) {
	for len in 1..=max_len {
		let total = toks.len().pow(len as u32);
		let take: Vec<usize> = match sample_per_len {
			Some(n) if total > n => (0..n).map(|_| rng.below(total as u64) as usize).collect(),
			_ => (0..total).collect(),
		};
		for idx in take {
			let mut b = vec![];
			let mut k = idx;
			for _ in 0..len {
				b.extend_from_slice(toks[k % toks.len()]);
				k /= toks.len();
			}
			push(v, label, b);
		}
	}
}

/// Builds the corpus. `scale` ≈ number of generated valid streams per format.
pub fn build(rng: &mut Rng, scale: usize, thorough: bool) -> Vec<Item> {
	let mut v = vec![];
	// Fixed regression inputs first (minimised past findings and probes).
	for (label, b) in [
		("fixed.empty", &b""[..]),
		("fixed.k1_truefalse", b"truefalse"),
		("fixed.k1_1true", b"1true"),
		("fixed.json_two_scalars", b"1 2"),
		("fixed.k2_yaml_comment_only", b"# nothing\n"),
		("fixed.k3_dup_key", b"{\"a\":1,\"a\":2}"),
		("fixed.d6_msgpack_trunc", b"\x92\x01"),
		("fixed.d6_yaml_u0700", b"\xdc\x90: 1\n"),
		("fixed.d3_utf16le_ascii", b"a\x00:\x00 \x001\x00\n\x00"),
		("fixed.k7_utf16le_digit_key", b"1\x00:\x00 \x00\xe9\x00\n\x00"),
		("fixed.k7_utf32le_digit_key", b"1\x00\x00\x00:\x00\x00\x00 \x00\x00\x00\xe9\x00\x00\x00\n\x00\x00\x00"),
		("fixed.yaml_alias", b"a: &x [1]\nb: *x\n"),
		("fixed.yaml_unknown_alias", b"a: *y\n"),
		("fixed.toml_table_header", b"[a]\n"),
		("fixed.toml_kv", b"a = \"b: c\"\n"),
		("fixed.multi_format", b"[1, 2]"),
		("fixed.msgpack_map", b"\x81\xa1a\x01"),
		("fixed.msgpack_two", b"\x91\x01\x91\x02"),
		("fixed.json_two_objects", b"{\"a\":1}\n{\"b\":2}\n"),
		("fixed.json_two_objects_nosep", b"{\"a\":1}{\"b\":2}"),
		("fixed.yaml_two_maps", b"a: 1\n---\nb: 2\n"),
		("fixed.msgpack_two_maps", b"\x81\xa1a\x01\x81\xa1b\x02"),
		("fixed.json_ws_only", b" \n\t"),
		("fixed.yaml_docs", b"---\na: 1\n---\n- 2\n...\n"),
		("fixed.nul", b"\x00"),
		// K11: the toml crate's private date-time key in a JSON object
		("fixed.k11_json_toml_datetime_key", b"{\"d\":{\"$__toml_private_datetime\":\"1979-05-27T07:32:00Z\"},\"e\":1}\n"),
		("fixed.k11_json_toml_datetime_key_bad", b"{\"d\":{\"$__toml_private_datetime\":\"yesterday\"}}"),
		// a UTF-8 byte order mark in front of YAML text with multi-byte characters
		("fixed.yaml_utf8_bom_2byte", b"\xef\xbb\xbfa: \xc3\xa9\xc3\xa9\n"),
		("fixed.yaml_utf8_bom_4byte_flow", b"\xef\xbb\xbf[\"\xf0\x9f\xa7\x91\", \"\xf0\x9f\x92\xbb\"]\n"),
		("fixed.yaml_utf8_bom_docs", b"\xef\xbb\xbf---\nk: \xe2\x82\xac\n---\n- \xc3\xbc\xc3\xbc\n- \xe2\x82\xac\n"),
		("fixed.yaml_utf8_bom_ascii", b"\xef\xbb\xbfa: 1\n---\nb: 2\n"),
		("fixed.json_utf8_bom_object", b"\xef\xbb\xbf{\"a\": -0}\n"),
		("fixed.json_utf8_bom_array", b"\xef\xbb\xbf[1, 2]"),
		("fixed.json_utf8_bom_ws", b"\xef\xbb\xbf  \n{\"a\": 1}\n{\"b\": 2}\n"),
		("fixed.bom_only", b"\xef\xbb\xbf"),
		("fixed.bom_short", b"\xef\xbb\xbfa"),
		// line breaks and blanks on which Rust's str methods and YAML disagree
		("fixed.yaml_comment_cr", b"# c\ra: 1\r"),
		("fixed.yaml_cr_indented_map", b"# c\r  a: 1\r  b: 2\r"),
		("fixed.yaml_cr_indented_seq", b"# c\r  - a\r  - b\r"),
		("fixed.yaml_nel_indented_map", b"# c\xc2\x85  a: 1\xc2\x85  b: 2\xc2\x85"),
		("fixed.yaml_comment_nel", b"# c\xc2\x85a: 1\n"),
		("fixed.yaml_comment_ls", b"# c\xe2\x80\xa8a: 1\n"),
		("fixed.yaml_nbsp_line", b"\xc2\xa0\n"),
		("fixed.yaml_comment_nbsp_line", b"# c\n\xc2\xa0\n"),
		("fixed.yaml_ff_line", b"# c\n\x0c\n"),
		("fixed.yaml_tab_line", b"# c\n\t\n"),
		("fixed.yaml_vt_line", b"\x0b\n"),
		// JSON behind a long run of whitespace
		("fixed.json_ws40_object", b"                                        {\"a\": 1}\n"),
		("fixed.json_ws40_two", b"\n\n\n\n\n\n\n\n\n\n\n\n\n\n\n\n\n\n\n\n\n\n\n\n\n\n\n\n\n\n\n\n\n\n\n\n\n\n\n\n[1]\n[2]\n"),
		("fixed.json_ws33_scalar", b"\t\t\t\t\t\t\t\t\t\t\t\t\t\t\t\t\t\t\t\t\t\t\t\t\t\t\t\t\t\t\t\t\t17 18"),
		("fixed.json_ws31_object", b"                               {\"a\": 1}"),
		("fixed.json_ws32_object", b"                                {\"a\": 1}"),
		// YAML in UTF-16 / UTF-32 with a byte order mark, and without one but not ASCII
		("fixed.yaml_utf16le_bom", b"\xff\xfea\x00:\x00 \x001\x00\n\x00"),
		("fixed.yaml_utf16be_bom", b"\xfe\xff\x00-\x00 \x00\xe9\x00\n"),
		("fixed.yaml_utf16le_nonascii", b"k\x00:\x00 \x00\xe9\x00\xac\x20\n\x00"),
		("fixed.yaml_utf32le_bom", b"\xff\xfe\x00\x00a\x00\x00\x00:\x00\x00\x00 \x00\x00\x001\x00\x00\x00\n\x00\x00\x00"),
		("fixed.yaml_utf32be_nonascii", b"\x00\x00\x00-\x00\x00\x00 \x00\x00\x20\xac\x00\x00\x00\n"),
	] {
		push(&mut v, label, b.to_vec());
	}
	for &f in &ALL_FMTS {
		for _ in 0..scale {
			let s = valid_stream(rng, f, 4);
			push(&mut v, &format!("valid.{}", f.name()), s.clone());
			// mutated, truncated, spliced variants
			for _ in 0..2 {
				push(&mut v, &format!("mutated.{}", f.name()), mutate(&s, rng));
			}
			if !s.is_empty() {
				let cut = rng.below(s.len() as u64) as usize;
				push(&mut v, &format!("truncated.{}", f.name()), s[..cut].to_vec());
			}
			if rng.chance(1, 4) {
				let g = *rng.pick(&ALL_FMTS);
				let mut t = s.clone();
				t.extend_from_slice(&valid_stream(rng, g, 2));
				push(&mut v, &format!("spliced.{}+{}", f.name(), g.name()), t);
			}
		}
	}
	// Every truncation of a few small valid documents.
	for &f in &ALL_FMTS {
		for _ in 0..(if thorough { 12 } else { 3 }) {
			let s = valid_stream(rng, f, 2);
			if s.len() <= 120 {
				for cut in 0..s.len() {
					push(&mut v, &format!("prefix.{}", f.name()), s[..cut].to_vec());
				}
			}
		}
	}
	// YAML in other encodings.
	for _ in 0..scale / 4 + 2 {
		let s = valid_stream(rng, Fmt::Yaml, 2);
		if let Ok(text) = std::str::from_utf8(&s) {
			let enc = rng.range(1, 4) as u8;
			push(&mut v, "valid.yaml.utf16_32", encode_text(text, enc, rng.chance(1, 2)));
		}
	}
	// Short token sequences over each format's alphabet.
	let (max_len, sample) = if thorough { (3, Some(6000)) } else { (2, Some(250)) };
	token_sequences(&mut v, rng, "tokens.json", JSON_TOKENS, max_len + 1, sample);
	token_sequences(&mut v, rng, "tokens.yaml", YAML_TOKENS, max_len + 1, sample);
	token_sequences(&mut v, rng, "tokens.toml", TOML_TOKENS, max_len + 1, sample);
	token_sequences(&mut v, rng, "tokens.msgpack", MSGPACK_TOKENS, max_len + 1, sample);
	// First bytes that are MessagePack collection markers, followed by text.
	for b in (0x80u8..=0x9f).chain(0xdc..=0xdf) {
		for tail in [&b""[..], b"\x01", b": 1\n", b"\x90: 1\n", b"\x00\x01\x01", b"abc"] {
			let mut s = vec![b];
			s.extend_from_slice(tail);
			push(&mut v, "firstbyte.msgpack_marker", s);
		}
	}
	for cp in [0x700u32, 0x701, 0x7ff, 0x740] {
		let c = char::from_u32(cp).unwrap();
		push(&mut v, "firstbyte.yaml_u0700", format!("{c}: 1\n").into_bytes());
		push(&mut v, "firstbyte.yaml_u0700", format!("- {c}\n").into_bytes());
		push(&mut v, "firstbyte.yaml_u0700", format!("{c}").into_bytes());
	}
	// Wide documents: more collections in ONE document than any depth limit
	// (depth budgets must be given back when a collection ends).
	for n in [400usize, 1100, 2500] {
		let mut m = vec![0xdc, (n >> 8) as u8, n as u8];
		let mut j = String::from("[");
		let mut y = String::new();
		for i in 0..n {
			m.extend_from_slice(&[0x82, 0xa2, b'i', b'd', (i % 100) as u8, 0xa4, b't', b'a', b'g', b's', 0x90]);
			j.push_str(&format!("{}{{\"id\":{},\"tags\":[]}}", if i > 0 { "," } else { "" }, i % 100));
			y.push_str(&format!("- {{id: {}, tags: []}}\n", i % 100));
		}
		j.push(']');
		push(&mut v, "wide.msgpack", m);
		push(&mut v, "wide.json", j.into_bytes());
		push(&mut v, "wide.yaml", y.into_bytes());
	}
	// A MessagePack map 16 whose pair count needs the upper half of the 16 bits
	// (twice the count does not fit 16 bits), and a str 8 / bin 8 / str 16 whose
	// length plus header does not fit its width.
	for n in [32768usize, 40000] {
		let mut m = vec![0xde, (n >> 8) as u8, n as u8];
		for i in 0..n {
			let k = [b'a' + (i % 26) as u8, b'a' + (i / 26 % 26) as u8, b'a' + (i / 676 % 26) as u8, b'a' + (i / 17576) as u8];
			m.push(0xa4);
			m.extend_from_slice(&k);
			m.push((i % 100) as u8);
		}
		push(&mut v, "map16.msgpack", m);
	}
	for (marker, len) in [(0xd9u8, 254usize), (0xd9, 255), (0xc4, 255), (0xda, 65533), (0xda, 65535), (0xc5, 65534)] {
		let mut m = vec![0x92, marker];
		if marker == 0xda || marker == 0xc5 {
			m.push((len >> 8) as u8);
		}
		m.push(len as u8);
		m.extend(std::iter::repeat(b'x').take(len));
		m.push(0x01);
		push(&mut v, "lenwidth.msgpack", m);
	}
	// Large non-ASCII YAML / JSON (multi-byte characters across 8 KiB and
	// 16 KiB read boundaries at every alignment).
	for pad in 0..4usize {
		for ch in ["\u{e9}", "\u{20ac}", "\u{1f600}"] {
			let text: String = std::iter::repeat(ch).take(40_000 / ch.len()).collect();
			push(&mut v, "bigtext.yaml", format!("p: \"{}\"\nt: \"{}\"\n", "x".repeat(pad), text).into_bytes());
			push(&mut v, "bigtext.json", format!("{{\"p\":\"{}\",\"t\":\"{}\"}}\n", "x".repeat(pad), text).into_bytes());
		}
	}
	// Random bytes.
	for _ in 0..scale {
		let n = rng.below(24) as usize;
		push(&mut v, "random", (0..n).map(|_| rng.below(256) as u8).collect());
	}
	v
}

/// Documents whose root is a map or an array, for every format that can
/// represent them (used by the own-output properties).
pub fn collection_docs(rng: &mut Rng, n: usize, fmts: &[Fmt]) -> Vec<Val> {
	let mut o = GenOpts::cdm().for_formats(fmts);
	o.root_collection = true;
	let mut v = vec![Val::Seq(vec![]), Val::Map(vec![])];
	for first_key in ["", "1", "true", "null", "1e3", "\"q\"", "é", "\u{700}", "\u{7ff}", "a b", "- a", "#", "[", "{", "---", "a: b", "=", "a.b"] {
		v.push(Val::Map(vec![(Val::Str(first_key.to_string()), Val::Int(1))]));
		v.push(Val::Seq(vec![Val::Str(first_key.to_string())]));
	}
	// Documents whose TOML (or JSON / YAML) text BEGINS like a YAML block
	// mapping or sequence but is not YAML as a whole: a first line with `: ` or
	// a leading `- `, followed by table headers, more entries, arrays of tables.
	let s = |t: &str| Val::Str(t.to_string());
	let m = |e: Vec<(&str, Val)>| Val::Map(e.into_iter().map(|(k, x)| (Val::Str(k.to_string()), x)).collect());
	for first in [("a", s("x: y")), ("-", Val::Int(1)), ("k", s("- x: y")), ("a", s("b: c #")), ("-", s("x: y")), ("a", s("? b : c")), ("x", s("y: [")), ("a-b", s(": "))] {
		let (k, x) = first;
		v.push(m(vec![(k, x.clone()), ("t", m(vec![("k", Val::Int(1))]))]));
		v.push(m(vec![(k, x.clone()), ("z", Val::Seq(vec![m(vec![("q", Val::Int(1))]), m(vec![("q", s("r: s"))])]))]));
		v.push(m(vec![(k, x.clone()), ("b", Val::Int(2)), ("c", Val::Seq(vec![Val::Int(1), s("u: v")]))]));
		v.push(m(vec![(k, x), ("t", m(vec![("u", m(vec![("w", s("p: q"))]))]))]));
	}
	// Arrays whose MessagePack header and first elements read as well-formed
	// UTF-8 (array 16 with 0x8000–0xBFFF elements: DC 80..BF xx) or as UTF-16
	// (second byte 0): large counts of small integers.
	for (n, x) in [(32768usize, 0i128), (40000, 7), (32768 + 127, 1), (49151, 0), (256, 0), (65536 + 128, 0)] {
		v.push(Val::Seq(std::iter::repeat(Val::Int(x)).take(n).collect()));
	}
	for _ in 0..n {
		v.push(gen_doc(rng, &o));
	}
	v.retain(|d| fmts.iter().all(|f| d.representable(*f)));
	v
}
