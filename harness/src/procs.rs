//! Running the real xt binaries as child processes.

use std::io::{Read, Write};
use std::os::unix::process::ExitStatusExt;
use std::process::{Command, Stdio};
use std::time::{Duration, Instant};

#[derive(Clone, Debug, PartialEq, Eq)]
pub enum Status {
	Exit(i32),
	Signal(i32),
	Timeout,
	SpawnError(String),
}

pub struct Run {
	pub status: Status,
	pub stdout: Vec<u8>,
	pub stderr: Vec<u8>,
}

pub fn bin(release: bool) -> Option<String> {
	std::env::var(if release { "XT_BIN_RELEASE" } else { "XT_BIN_DEBUG" }).ok().filter(|p| std::path::Path::new(p).exists())
}

/// Runs `bin args…` with `stdin` piped in (or no stdin when `None`), collecting
/// stdout, stderr and the wait status; kills the child after `timeout`.
pub fn run(bin: &str, args: &[String], stdin: Option<&[u8]>, timeout: Duration) -> Run {
	let mut cmd = Command::new(bin);
	cmd.args(args).stdout(Stdio::piped()).stderr(Stdio::piped());
	cmd.stdin(if stdin.is_some() { Stdio::piped() } else { Stdio::null() });
	let mut child = match cmd.spawn() {
		Ok(c) => c,
		Err(e) => return Run { status: Status::SpawnError(e.to_string()), stdout: vec![], stderr: vec![] },
	};
	let feeder = stdin.map(|data| {
		let mut pipe = child.stdin.take().unwrap();
		let data = data.to_vec();
		std::thread::spawn(move || {
			let _ = pipe.write_all(&data);
		})
	});
	let mut so = child.stdout.take().unwrap();
	let mut se = child.stderr.take().unwrap();
	let t_out = std::thread::spawn(move || {
		let mut v = vec![];
		let _ = so.read_to_end(&mut v);
		v
	});
	let t_err = std::thread::spawn(move || {
		let mut v = vec![];
		let _ = se.read_to_end(&mut v);
		v
	});
	let start = Instant::now();
	let status = loop {
		match child.try_wait() {
			Ok(Some(st)) => {
				break match (st.code(), st.signal()) {
					(Some(c), _) => Status::Exit(c),
					(None, Some(s)) => Status::Signal(s),
					_ => Status::Exit(-1),
				}
			}
			Ok(None) => {
				if start.elapsed() > timeout {
					let _ = child.kill();
					let _ = child.wait();
					break Status::Timeout;
				}
				std::thread::sleep(Duration::from_millis(2));
			}
			Err(e) => break Status::SpawnError(e.to_string()),
		}
	};
	if let Some(f) = feeder {
		let _ = f.join();
	}
	Run { status, stdout: t_out.join().unwrap_or_default(), stderr: t_err.join().unwrap_or_default() }
}

/// A scratch directory under the harness's work area (never /tmp).
pub fn scratch_dir(name: &str) -> String {
	let base = std::env::var("XTVERIF_WORK").unwrap_or_else(|_| "/verif/.work".to_string());
	let dir = format!("{base}/scratch-{name}-{}", std::process::id());
	let _ = std::fs::create_dir_all(&dir);
	dir
}

/// The write end of a fresh pipe whose read end is ALREADY closed (so that the
/// very first write meets EPIPE — no race with the child's start-up).
fn dead_pipe_write_end() -> Option<Stdio> {
	use std::os::unix::io::FromRawFd;
	let mut fds = [0 as libc::c_int; 2];
	// SAFETY: plain libc calls on a local array; the returned descriptors are
	// owned here: the read end is closed at once, the write end is handed to
	// `Stdio`, which closes it after spawning.
	unsafe {
		if libc::pipe(fds.as_mut_ptr()) != 0 {
			return None;
		}
		libc::close(fds[0]);
		Some(Stdio::from_raw_fd(fds[1]))
	}
}

/// How the child's standard output is connected.
pub enum Sink {
	/// A pipe that is read to the end.
	Pipe,
	/// A pipe whose read end is closed before the child starts writing.
	ClosedPipe,
	/// `/dev/full` (every write fails with ENOSPC).
	DevFull,
}

/// Runs `bin args…` with standard input taken from `stdin_file` (positioned
/// wherever the caller left it) or from nothing, and standard output connected
/// to `sink`.
pub fn run_io(bin: &str, args: &[String], stdin_file: Option<std::fs::File>, sink: Sink, timeout: Duration) -> Run {
	let mut cmd = Command::new(bin);
	cmd.args(args).stderr(Stdio::piped());
	match stdin_file {
		Some(f) => {
			cmd.stdin(Stdio::from(f));
		}
		None => {
			cmd.stdin(Stdio::null());
		}
	}
	match sink {
		Sink::Pipe => {
			cmd.stdout(Stdio::piped());
		}
		Sink::ClosedPipe => match dead_pipe_write_end() {
			Some(w) => {
				cmd.stdout(w);
			}
			None => return Run { status: Status::SpawnError("pipe()".into()), stdout: vec![], stderr: vec![] },
		},
		Sink::DevFull => match std::fs::OpenOptions::new().write(true).open("/dev/full") {
			Ok(f) => {
				cmd.stdout(Stdio::from(f));
			}
			Err(e) => return Run { status: Status::SpawnError(format!("/dev/full: {e}")), stdout: vec![], stderr: vec![] },
		},
	}
	let mut child = match cmd.spawn() {
		Ok(c) => c,
		Err(e) => return Run { status: Status::SpawnError(e.to_string()), stdout: vec![], stderr: vec![] },
	};
	let so = child.stdout.take();
	let t_out = match (so, &sink) {
		(Some(mut so), Sink::Pipe) => Some(std::thread::spawn(move || {
			let mut v = vec![];
			let _ = so.read_to_end(&mut v);
			v
		})),
		(Some(so), _) => {
			drop(so); // the consumer goes away
			None
		}
		_ => None,
	};
	let mut se = child.stderr.take().unwrap();
	let t_err = std::thread::spawn(move || {
		let mut v = vec![];
		let _ = se.read_to_end(&mut v);
		v
	});
	let start = Instant::now();
	let status = loop {
		match child.try_wait() {
			Ok(Some(st)) => {
				break match (st.code(), st.signal()) {
					(Some(c), _) => Status::Exit(c),
					(None, Some(s)) => Status::Signal(s),
					_ => Status::Exit(-1),
				}
			}
			Ok(None) => {
				if start.elapsed() > timeout {
					let _ = child.kill();
					let _ = child.wait();
					break Status::Timeout;
				}
				std::thread::sleep(Duration::from_millis(1));
			}
			Err(e) => break Status::SpawnError(e.to_string()),
		}
	};
	Run { status, stdout: t_out.map(|t| t.join().unwrap_or_default()).unwrap_or_default(), stderr: t_err.join().unwrap_or_default() }
}

/// Runs `bin args…` with no standard input, standard output discarded, and
/// standard ERROR connected to `sink`; returns only the wait status.
pub fn run_stderr_sink(bin: &str, args: &[String], sink: Sink, timeout: Duration) -> Status {
	let mut cmd = Command::new(bin);
	cmd.args(args).stdin(Stdio::null()).stdout(Stdio::null());
	match sink {
		Sink::Pipe => {
			cmd.stderr(Stdio::piped());
		}
		Sink::ClosedPipe => match dead_pipe_write_end() {
			Some(w) => {
				cmd.stderr(w);
			}
			None => return Status::SpawnError("pipe()".into()),
		},
		Sink::DevFull => match std::fs::OpenOptions::new().write(true).open("/dev/full") {
			Ok(f) => {
				cmd.stderr(Stdio::from(f));
			}
			Err(e) => return Status::SpawnError(format!("/dev/full: {e}")),
		},
	}
	let mut child = match cmd.spawn() {
		Ok(c) => c,
		Err(e) => return Status::SpawnError(e.to_string()),
	};
	let se = child.stderr.take();
	let reader = match (se, &sink) {
		(Some(mut se), Sink::Pipe) => Some(std::thread::spawn(move || {
			let mut v = vec![];
			let _ = se.read_to_end(&mut v);
		})),
		(Some(se), _) => {
			drop(se);
			None
		}
		_ => None,
	};
	let start = Instant::now();
	let status = loop {
		match child.try_wait() {
			Ok(Some(st)) => {
				break match (st.code(), st.signal()) {
					(Some(c), _) => Status::Exit(c),
					(None, Some(s)) => Status::Signal(s),
					_ => Status::Exit(-1),
				}
			}
			Ok(None) => {
				if start.elapsed() > timeout {
					let _ = child.kill();
					let _ = child.wait();
					break Status::Timeout;
				}
				std::thread::sleep(Duration::from_millis(1));
			}
			Err(e) => break Status::SpawnError(e.to_string()),
		}
	};
	if let Some(r) = reader {
		let _ = r.join();
	}
	status
}
