//! Small shared helpers: PRNG, hex, scheduled / faulty readers and writers.

use std::io::{self, Read, Write};

/// SplitMix64: every random choice in the harness derives from one state.
#[derive(Clone)]
pub struct Rng(pub u64);

impl Rng {
	pub fn new(seed: u64) -> Rng {
		Rng(seed.wrapping_mul(0x9E3779B97F4A7C15).wrapping_add(0x1234_5678_9ABC_DEF1))
	}
	pub fn next(&mut self) -> u64 {
		self.0 = self.0.wrapping_add(0x9E3779B97F4A7C15);
		let mut z = self.0;
		z = (z ^ (z >> 30)).wrapping_mul(0xBF58476D1CE4E5B9);
		z = (z ^ (z >> 27)).wrapping_mul(0x94D049BB133111EB);
		z ^ (z >> 31)
	}
	/// Uniform in `0..n` (n > 0).
	pub fn below(&mut self, n: u64) -> u64 {
		self.next() % n
	}
	pub fn range(&mut self, lo: u64, hi_incl: u64) -> u64 {
		lo + self.below(hi_incl - lo + 1)
	}
	pub fn chance(&mut self, num: u64, den: u64) -> bool {
		self.below(den) < num
	}
	pub fn pick<'a, T>(&mut self, xs: &'a [T]) -> &'a T {
		&xs[self.below(xs.len() as u64) as usize]
	}
	pub fn fork(&mut self) -> Rng {
		Rng(self.next())
	}
}

pub fn hex(bytes: &[u8]) -> String {
	if bytes.is_empty() {
		return "-".to_string();
	}
	let mut s = String::with_capacity(bytes.len() * 2);
	for b in bytes {
		s.push_str(&format!("{b:02x}"));
	}
	s
}

pub fn unhex(s: &str) -> Option<Vec<u8>> {
	if s == "-" {
		return Some(vec![]);
	}
	if s.len() % 2 != 0 {
		return None;
	}
	(0..s.len() / 2)
		.map(|i| u8::from_str_radix(&s[2 * i..2 * i + 2], 16).ok())
		.collect()
}

pub fn nats(ns: &[usize]) -> String {
	if ns.is_empty() {
		return "-".to_string();
	}
	ns.iter().map(|n| n.to_string()).collect::<Vec<_>>().join(",")
}

pub fn parse_nats(s: &str) -> Option<Vec<usize>> {
	if s == "-" {
		return Some(vec![]);
	}
	s.split(',').map(|x| x.parse().ok()).collect()
}

/// The text used by injected reader faults; checks look for it in messages.
pub const READ_FAULT_TEXT: &str = "INJECTED-READ-FAULT";
/// The text used by injected writer faults.
pub const WRITE_FAULT_TEXT: &str = "INJECTED-WRITE-FAULT";

/// A reader over in-memory data that caps each `read` by the next entry of a
/// schedule (exhausted schedule ⇒ uncapped), optionally failing persistently
/// once `fail_at` bytes have been delivered. Logs every call.
pub struct SchedReader {
	pub data: Vec<u8>,
	pub pos: usize,
	pub sched: Vec<usize>,
	pub next: usize,
	pub cycle: bool,
	pub fail_at: Option<usize>,
	pub calls: usize,
	pub max_pos_requested: usize,
}

impl SchedReader {
	pub fn new(data: &[u8], sched: Vec<usize>, cycle: bool, fail_at: Option<usize>) -> SchedReader {
		SchedReader {
			data: data.to_vec(),
			pos: 0,
			sched,
			next: 0,
			cycle,
			fail_at,
			calls: 0,
			max_pos_requested: 0,
		}
	}
}

impl Read for SchedReader {
	fn read(&mut self, buf: &mut [u8]) -> io::Result<usize> {
		self.calls += 1;
		if buf.is_empty() {
			return Ok(0);
		}
		let mut cap = buf.len();
		if !self.sched.is_empty() {
			if self.next < self.sched.len() {
				cap = cap.min(self.sched[self.next].max(1));
				self.next += 1;
				if self.cycle && self.next == self.sched.len() {
					self.next = 0;
				}
			}
		}
		let mut avail = self.data.len() - self.pos;
		if let Some(k) = self.fail_at {
			if self.pos >= k {
				return Err(io::Error::new(io::ErrorKind::Other, READ_FAULT_TEXT));
			}
			avail = avail.min(k - self.pos);
		}
		let n = cap.min(avail);
		buf[..n].copy_from_slice(&self.data[self.pos..self.pos + n]);
		self.pos += n;
		Ok(n)
	}
}

/// A writer that accepts at most `limit` bytes in total and then fails
/// persistently, optionally accepting only short pieces.
pub struct FaultWriter {
	pub accepted: Vec<u8>,
	pub limit: Option<usize>,
	pub piece: Vec<usize>,
	pub next: usize,
	pub flushes: usize,
}

impl FaultWriter {
	pub fn new(limit: Option<usize>, piece: Vec<usize>) -> FaultWriter {
		FaultWriter { accepted: vec![], limit, piece, next: 0, flushes: 0 }
	}
}

impl Write for FaultWriter {
	fn write(&mut self, buf: &[u8]) -> io::Result<usize> {
		if buf.is_empty() {
			return Ok(0);
		}
		let mut n = buf.len();
		if !self.piece.is_empty() {
			n = n.min(self.piece[self.next % self.piece.len()].max(1));
			self.next += 1;
		}
		if let Some(limit) = self.limit {
			let room = limit - self.accepted.len().min(limit);
			if room == 0 {
				return Err(io::Error::new(io::ErrorKind::Other, WRITE_FAULT_TEXT));
			}
			n = n.min(room);
		}
		self.accepted.extend_from_slice(&buf[..n]);
		Ok(n)
	}
	fn flush(&mut self) -> io::Result<()> {
		self.flushes += 1;
		Ok(())
	}
}

/// Runs `f`, converting a panic into `Err(message)`.
pub fn catch<T>(f: impl FnOnce() -> T) -> Result<T, String> {
	match std::panic::catch_unwind(std::panic::AssertUnwindSafe(f)) {
		Ok(v) => Ok(v),
		Err(p) => Err(if let Some(s) = p.downcast_ref::<&str>() {
			s.to_string()
		} else if let Some(s) = p.downcast_ref::<String>() {
			s.clone()
		} else {
			"panic".to_string()
		}),
	}
}

pub fn json_escape(s: &str) -> String {
	let mut o = String::new();
	for c in s.chars() {
		match c {
			'"' => o.push_str("\\\""),
			'\\' => o.push_str("\\\\"),
			'\n' => o.push_str("\\n"),
			'\r' => o.push_str("\\r"),
			'\t' => o.push_str("\\t"),
			c if (c as u32) < 0x20 => o.push_str(&format!("\\u{:04x}", c as u32)),
			c => o.push(c),
		}
	}
	o
}

/// A reader that fails exactly once with `ErrorKind::Interrupted` when `at`
/// bytes have been delivered, and otherwise behaves like its `SchedReader`.
pub struct InterruptOnce {
	pub inner: SchedReader,
	pub at: usize,
	pub fired: bool,
}

impl Read for InterruptOnce {
	fn read(&mut self, buf: &mut [u8]) -> io::Result<usize> {
		if !self.fired && self.inner.pos >= self.at && !buf.is_empty() {
			self.fired = true;
			return Err(io::Error::new(io::ErrorKind::Interrupted, "INJECTED-INTERRUPT"));
		}
		// Never deliver past `at` before the interrupt fired, so that it lands
		// exactly at that offset.
		if !self.fired && !buf.is_empty() {
			let room = self.at - self.inner.pos;
			let n = buf.len().min(room.max(1));
			return self.inner.read(&mut buf[..n]);
		}
		self.inner.read(buf)
	}
}

/// A breadcrumb that survives the death of the process: the case about to be
/// run is copied into a shared file mapping (no system call per case), so that
/// when xt takes the whole process down — abort, stack overflow, heap
/// corruption caught by the allocator — the orchestrator can still name the
/// input. Layout: u32 LE text length, u32 LE data length, text, data.
pub mod crumb {
	use std::sync::atomic::{AtomicPtr, AtomicUsize, Ordering};

	static BASE: AtomicPtr<u8> = AtomicPtr::new(std::ptr::null_mut());
	static CAP: AtomicUsize = AtomicUsize::new(0);
	const SIZE: usize = 8 << 20;

	pub fn init(path: &str) {
		use std::os::unix::io::AsRawFd;
		let Ok(f) = std::fs::OpenOptions::new().read(true).write(true).create(true).truncate(true).open(path) else { return };
		if f.set_len(SIZE as u64).is_err() {
			return;
		}
		// SAFETY: a fresh shared mapping of a file this process just created and
		// sized; it is never unmapped and only written through `set`.
		let p = unsafe { libc::mmap(std::ptr::null_mut(), SIZE, libc::PROT_READ | libc::PROT_WRITE, libc::MAP_SHARED, f.as_raw_fd(), 0) };
		if p == libc::MAP_FAILED {
			return;
		}
		CAP.store(SIZE, Ordering::SeqCst);
		BASE.store(p as *mut u8, Ordering::SeqCst);
	}

	pub fn set(text: &str, data: &[u8]) {
		let base = BASE.load(Ordering::Relaxed);
		if base.is_null() {
			return;
		}
		let cap = CAP.load(Ordering::Relaxed);
		let t = text.as_bytes();
		let tl = t.len().min(4096);
		let dl = data.len().min(cap - 8 - tl);
		// SAFETY: `base..base+cap` is the mapping made by `init`; the three
		// copies stay inside it (tl <= 4096, dl <= cap - 8 - tl).
		unsafe {
			std::ptr::copy_nonoverlapping((tl as u32).to_le_bytes().as_ptr(), base, 4);
			std::ptr::copy_nonoverlapping((dl as u32).to_le_bytes().as_ptr(), base.add(4), 4);
			std::ptr::copy_nonoverlapping(t.as_ptr(), base.add(8), tl);
			std::ptr::copy_nonoverlapping(data.as_ptr(), base.add(8 + tl), dl);
		}
	}

	/// Reads a breadcrumb file back: (text, data).
	pub fn load(path: &str) -> Option<(String, Vec<u8>)> {
		let b = std::fs::read(path).ok()?;
		if b.len() < 8 {
			return None;
		}
		let tl = u32::from_le_bytes([b[0], b[1], b[2], b[3]]) as usize;
		let dl = u32::from_le_bytes([b[4], b[5], b[6], b[7]]) as usize;
		if tl == 0 || 8 + tl + dl > b.len() {
			return None;
		}
		Some((String::from_utf8_lossy(&b[8..8 + tl]).into_owned(), b[8 + tl..8 + tl + dl].to_vec()))
	}
}
