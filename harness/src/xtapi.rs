//! Thin helpers over xt's public API.

use crate::util::{catch, FaultWriter, SchedReader};

#[derive(Clone, Copy, Debug, PartialEq, Eq, Hash, PartialOrd, Ord)]
pub enum Fmt {
	Json,
	Msgpack,
	Toml,
	Yaml,
}

pub const ALL_FMTS: [Fmt; 4] = [Fmt::Json, Fmt::Msgpack, Fmt::Toml, Fmt::Yaml];
pub const STREAM_FMTS: [Fmt; 3] = [Fmt::Json, Fmt::Msgpack, Fmt::Yaml];

impl Fmt {
	pub fn xt(self) -> xt::Format {
		match self {
			Fmt::Json => xt::Format::Json,
			Fmt::Msgpack => xt::Format::Msgpack,
			Fmt::Toml => xt::Format::Toml,
			Fmt::Yaml => xt::Format::Yaml,
		}
	}
	pub fn from_xt(f: xt::Format) -> Fmt {
		match f {
			xt::Format::Json => Fmt::Json,
			xt::Format::Msgpack => Fmt::Msgpack,
			xt::Format::Toml => Fmt::Toml,
			xt::Format::Yaml => Fmt::Yaml,
			_ => panic!("unknown xt::Format"),
		}
	}
	pub fn name(self) -> &'static str {
		match self {
			Fmt::Json => "json",
			Fmt::Msgpack => "msgpack",
			Fmt::Toml => "toml",
			Fmt::Yaml => "yaml",
		}
	}
	pub fn letter(self) -> &'static str {
		&self.name()[..1]
	}
	pub fn from_name(s: &str) -> Option<Fmt> {
		match s {
			"json" | "j" => Some(Fmt::Json),
			"msgpack" | "m" => Some(Fmt::Msgpack),
			"toml" | "t" => Some(Fmt::Toml),
			"yaml" | "y" => Some(Fmt::Yaml),
			_ => None,
		}
	}
}

/// How input bytes are supplied.
#[derive(Clone, Debug)]
pub enum Supply {
	Slice,
	/// Reader with per-read caps (cycled).
	Reader(Vec<usize>),
}

impl Supply {
	pub fn describe(&self) -> String {
		match self {
			Supply::Slice => "slice".to_string(),
			Supply::Reader(s) if s.is_empty() => "reader(all-at-once)".to_string(),
			Supply::Reader(s) => format!("reader(caps {})", crate::util::nats(s)),
		}
	}
}

/// Outcome of a translation: verdict with error text, and the bytes written.
#[derive(Clone, Debug, PartialEq, Eq)]
pub struct Outcome {
	pub result: Result<(), String>,
	pub output: Vec<u8>,
}

impl Outcome {
	pub fn ok(&self) -> bool {
		self.result.is_ok()
	}
	pub fn describe(&self) -> String {
		match &self.result {
			Ok(()) => format!("ok output={}", crate::util::hex(&self.output)),
			Err(e) => format!("err({e}) output={}", crate::util::hex(&self.output)),
		}
	}
}

/// The breadcrumb of one translation: `translate <from|detect> <to> <slice|reader:caps>`.
pub fn crumb_text(supply: &Supply, from: Option<Fmt>, to: Fmt) -> String {
	let sup = match supply {
		Supply::Slice => "slice".to_string(),
		Supply::Reader(s) => format!("reader:{}", s.iter().map(|n| n.to_string()).collect::<Vec<_>>().join(",")),
	};
	format!("translate {} {} {}", from.map(Fmt::name).unwrap_or("detect"), to.name(), sup)
}

/// Runs a breadcrumb of that form again (three times); `None` if it has another form.
pub fn replay_crumb(text: &str, data: &[u8]) -> Option<Outcome> {
	let f: Vec<&str> = text.split(' ').collect();
	if f.len() != 4 || f[0] != "translate" {
		return None;
	}
	let from = if f[1] == "detect" { None } else { Some(Fmt::from_name(f[1])?) };
	let to = Fmt::from_name(f[2])?;
	let supply = if f[3] == "slice" {
		Supply::Slice
	} else {
		let caps = f[3].strip_prefix("reader:")?;
		Supply::Reader(caps.split(',').filter(|s| !s.is_empty()).filter_map(|s| s.parse().ok()).collect())
	};
	let mut last = None;
	for _ in 0..3 {
		last = Some(translate(data, &supply, from, to));
	}
	last
}

/// Translates one input; a panic is reported as `Err("PANIC: …")`.
pub fn translate(input: &[u8], supply: &Supply, from: Option<Fmt>, to: Fmt) -> Outcome {
	crate::util::crumb::set(&crumb_text(supply, from, to), input);
	let mut w = FaultWriter::new(None, vec![]);
	let r = catch(|| match supply {
		Supply::Slice => xt::translate_slice(input, from.map(Fmt::xt), to.xt(), &mut w),
		Supply::Reader(sched) => {
			let reader = SchedReader::new(input, sched.clone(), true, None);
			xt::translate_reader(reader, from.map(Fmt::xt), to.xt(), &mut w)
		}
	});
	let result = match r {
		Ok(Ok(())) => Ok(()),
		Ok(Err(e)) => Err(e.to_string()),
		Err(p) => Err(format!("PANIC: {p}")),
	};
	Outcome { result, output: w.accepted }
}

/// Translates a sequence of inputs through one `Translator`.
pub fn translate_many(inputs: &[(Vec<u8>, Supply, Option<Fmt>)], to: Fmt) -> (Vec<Result<(), String>>, Vec<u8>) {
	translate_many_pieces(inputs, to, vec![])
}

/// The same into a writer that accepts only the given short pieces (cycled).
pub fn translate_many_pieces(inputs: &[(Vec<u8>, Supply, Option<Fmt>)], to: Fmt, pieces: Vec<usize>) -> (Vec<Result<(), String>>, Vec<u8>) {
	let mut w = FaultWriter::new(None, pieces);
	let mut results = vec![];
	{
		let mut t = xt::Translator::new(&mut w, to.xt());
		for (input, supply, from) in inputs {
			let r = catch(|| match supply {
				Supply::Slice => t.translate_slice(input, from.map(Fmt::xt)),
				Supply::Reader(sched) => {
					let reader = SchedReader::new(input, sched.clone(), true, None);
					t.translate_reader(reader, from.map(Fmt::xt))
				}
			});
			results.push(match r {
				Ok(Ok(())) => Ok(()),
				Ok(Err(e)) => Err(e.to_string()),
				Err(p) => Err(format!("PANIC: {p}")),
			});
		}
	}
	(results, w.accepted)
}

pub fn detect(input: &[u8], supply: &Supply) -> Result<Option<Fmt>, String> {
	let r = catch(|| match supply {
		Supply::Slice => xt::verif::detect_slice(input),
		Supply::Reader(sched) => xt::verif::detect_reader(SchedReader::new(input, sched.clone(), true, None)),
	});
	match r {
		Ok(Ok(f)) => Ok(f.map(Fmt::from_xt)),
		Ok(Err(e)) => Err(e.to_string()),
		Err(p) => Err(format!("PANIC: {p}")),
	}
}

pub fn random_supply(rng: &mut crate::util::Rng) -> Supply {
	match rng.below(6) {
		0 => Supply::Slice,
		1 => Supply::Reader(vec![]),
		2 => Supply::Reader(vec![1]),
		3 => Supply::Reader(vec![rng.range(2, 7) as usize]),
		_ => Supply::Reader((0..rng.range(2, 6)).map(|_| rng.range(1, 40) as usize).collect()),
	}
}
